#!/usr/bin/env python3
"""import a confirmed sub-agent change from its scratch worktree into /verif/seeded/<id>/
usage: import_seeded.py <worktree> <id>"""
import json, os, shutil, subprocess, sys
wt, sid = sys.argv[1], sys.argv[2]
out = os.path.join(wt, "OUT"); dst = f"/verif/seeded/{sid}"
conf = json.load(open(os.path.join(out, "confirm.json")))
ok = conf["apply"] == 0 and conf["demo_without"] == 0 and conf["suite_nonflaky_failures"] == 0 and conf["demo_with"] != 0
if not ok:
    print("NOT CONFIRMED", conf); sys.exit(1)
os.makedirs(dst, exist_ok=True)
for f in ["patch.diff", "AGENT_README.md", "confirm.json"]:
    shutil.copy(os.path.join(out, f), dst)
if os.path.exists(os.path.join(dst, "demo")): shutil.rmtree(dst + "/demo")
shutil.copytree(os.path.join(out, "demo"), dst + "/demo", ignore=shutil.ignore_patterns("*.log"))
meta = json.load(open(os.path.join(out, "meta.json")))
base = subprocess.run(f"git -C {wt} rev-parse --short HEAD", shell=True, capture_output=True, text=True).stdout.strip()
meta["label"] = sid
meta["origin"] = f"written by a fresh sub-agent that saw only the property text and a scratch worktree of /repo (base {base}); nothing from /verif"
meta["confirmed_by_me"] = {
    "how": "tools/confirm_seeded.sh in the scratch worktree: demo on clean HEAD (must pass), git apply patch.diff, cargo test --workspace --no-fail-fast --offline (must pass; the two known-flaky tx3-tir proptests ignored), demo again (must fail), restore",
    "patch_applies": True, "demo_passes_without_change": True, "suite_passes_with_change": True,
    "suite_note": conf.get("note", "all tests passed"), "demo_fails_with_change": True}
json.dump(meta, open(dst + "/meta.json", "w"), indent=1)
print("imported", sid)
