#!/bin/bash
# confirm a sub-agent's seeded change in its own scratch worktree:
#   demo passes on the clean tree, patch applies, unedited suite passes with it, demo fails with it.
# usage: confirm_seeded.sh <worktree> <id>     (writes <worktree>/OUT/confirm.json)
WT=$1; ID=$2
export CARGO_NET_OFFLINE=true CARGO_TARGET_DIR=${CONFIRM_TARGET_DIR:-$WT/target}
cd $WT || exit 2
git checkout -q -- . 2>/dev/null
DEMO=$(ls OUT/demo/run_demo.sh 2>/dev/null)
[ -z "$DEMO" ] && { echo "no run_demo.sh"; exit 2; }
bash $DEMO $WT > OUT/confirm_demo_clean.log 2>&1; d0=$?
git checkout -q -- . ; git clean -fdq crates bin 2>/dev/null
git apply OUT/patch.diff; ap=$?
cargo test --workspace --no-fail-fast --offline > OUT/confirm_suite.log 2>&1; se=$?
nf=$(grep -E "^test .* FAILED" OUT/confirm_suite.log | grep -v composite_contains_some | grep -v "^test result" | wc -l)
bash $DEMO $WT > OUT/confirm_demo_patched.log 2>&1; d1=$?
git checkout -q -- . ; git clean -fdq crates bin 2>/dev/null
echo "{\"id\":\"$ID\",\"apply\":$ap,\"demo_without\":$d0,\"suite_exit\":$se,\"suite_nonflaky_failures\":$nf,\"demo_with\":$d1}" | tee OUT/confirm.json
