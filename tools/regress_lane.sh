#!/bin/bash
# A scratch regression lane that leaves /repo and /verif/sim alone: a worktree of /repo's HEAD and a
# copy of the simulator whose path dependencies point at it, both under /tmp/regress (removed at the
# end). Every seeded change matching the given glob (default: all) is applied to the scratch worktree,
# the simulator and - for C18 - tx3c are rebuilt there, and the check of its property runs at the
# quick tier with evidence redirected to the lane's own VERIF_DIR.
# usage: tools/regress_lane.sh [glob]      results: /verif/seeded/<id>/check_results.json + stdout
GLOB=${1:-"*"}
L=/tmp/regress; rm -rf $L; mkdir -p $L/verifdir
git -C /repo worktree prune; git -C /repo worktree add --detach $L/repo HEAD -q || exit 2
cp -r /verif/sim $L/sim; rm -rf $L/sim/target $L/sim/target-tx3c
sed -i "s#/repo/crates#$L/repo/crates#g" $L/sim/Cargo.toml
cp /verif/known_findings.jsonl $L/verifdir/
export CARGO_NET_OFFLINE=true VERIF_TX3C=$L/sim/target-tx3c/release/tx3c VERIF_SHIM=$L/sim/target/getrandom_shim.so VERIF_DIR=$L/verifdir VERIF_WORKERS=${LANE_WORKERS:-8}
build() { (cd $L/sim && cargo build --release --offline 2>&1 | grep -E "^error" -A8 | head -20); }
build_tx3c() { cargo build --release --offline --manifest-path $L/repo/Cargo.toml -p tx3c --target-dir $L/sim/target-tx3c >/dev/null 2>&1; }
build; mkdir -p $L/sim/target; cc -O2 -shared -fPIC -o $VERIF_SHIM $L/sim/shim/getrandom.c -ldl; build_tx3c
for d in /verif/seeded/$GLOB; do
  id=$(basename $d); prop=${id%-*}
  [ -f $d/patch.diff ] || continue
  git -C $L/repo checkout -q -- . ; git -C $L/repo clean -fdq crates bin
  if ! git -C $L/repo apply $d/patch.diff 2>/dev/null && ! git -C $L/repo apply --3way $d/patch.diff 2>/dev/null; then echo "$id PATCH-DOES-NOT-APPLY"; git -C $L/repo checkout -q -- .; continue; fi
  err=$(build); if [ -n "$err" ]; then echo "$id DOES-NOT-COMPILE"; continue; fi
  [ $prop = C18 ] && build_tx3c
  out=$($L/sim/target/release/simctl run --property $prop --tier quick 2>&1); rc=$?
  classes=$(echo "$out" | grep -E "^  [A-Z]" | sed -E 's/^  ([^:]*):.*/\1/' | sort -u | head -4 | tr '\n' ';')
  echo "$id exit=$rc $classes"
  python3 - "$d" "$prop" "$rc" "$classes" <<'PY'
import json,sys,subprocess
d,prop,rc,classes=sys.argv[1:5]
head=subprocess.run("git -C /verif log --format=%h -1",shell=True,capture_output=True,text=True).stdout.strip()
json.dump({prop:{"exit":int(rc),"classes":[c for c in classes.split(';') if c],"machinery_commit":head,"lane":"tools/regress_lane.sh"}},open(d+"/check_results.json","w"),indent=1)
PY
  [ $prop = C18 ] && { git -C $L/repo checkout -q -- . ; build_tx3c; }
done
git -C /repo worktree remove --force $L/repo; rm -rf $L
