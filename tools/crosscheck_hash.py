#!/usr/bin/env python3
"""Independent cross-check of C10/M2 on the transactions written out in an evidence file:
recompute Blake2b-256 over the body bytes inside each sampled payload with hashlib
(no code shared with pallas) and compare with the reported hash.
usage: crosscheck_hash.py /verif/evidence/C10.json   -> exit 0 if all sampled hashes agree."""
import hashlib, json, sys

def head(b, p):
    ib = b[p]; major = ib >> 5; ai = ib & 0x1f
    if ai < 24: return major, ai, 1, False
    if ai == 24: return major, b[p+1], 2, False
    if ai == 25: return major, int.from_bytes(b[p+1:p+3], 'big'), 3, False
    if ai == 26: return major, int.from_bytes(b[p+1:p+5], 'big'), 5, False
    if ai == 27: return major, int.from_bytes(b[p+1:p+9], 'big'), 9, False
    if ai == 31: return major, 0, 1, True
    raise ValueError('reserved additional info')

def item_len(b, p):
    major, arg, hl, indef = head(b, p)
    q = p + hl
    if major in (0, 1): return q - p
    if major in (2, 3):
        if indef:
            while b[q] != 0xff: q += item_len(b, q)
            return q + 1 - p
        return q + arg - p
    if major in (4, 5):
        per = 1 if major == 4 else 2
        if indef:
            while b[q] != 0xff:
                for _ in range(per): q += item_len(b, q)
            return q + 1 - p
        for _ in range(arg * per): q += item_len(b, q)
        return q - p
    if major == 6: return q + item_len(b, q) - p
    return q - p

def walk(o, out):
    if isinstance(o, dict):
        if 'payload' in o and 'hash' in o: out.append((o['payload'], o['hash']))
        for v in o.values(): walk(v, out)
    elif isinstance(o, list):
        for v in o: walk(v, out)

def main():
    ev = json.load(open(sys.argv[1]))
    found = []
    walk(ev.get('coverage', {}).get('samples', []), found)
    bad = 0
    for payload_hex, reported in found:
        b = bytes.fromhex(payload_hex)
        assert b[0] == 0x84, 'transaction is not a 4-element array'
        n = item_len(b, 1)
        digest = hashlib.blake2b(b[1:1+n], digest_size=32).hexdigest()
        ok = digest == reported
        bad += (not ok)
        print(('ok   ' if ok else 'BAD  ') + reported[:16] + '… body ' + str(n) + ' bytes')
    print(f'{len(found)} sampled transactions cross-checked with hashlib.blake2b, {bad} mismatches')
    sys.exit(1 if bad else 0)

if __name__ == '__main__':
    main()
