#!/bin/sh
# tools/sweep.sh "<seeds>" "<props>"   quick tier of the given properties under the given VERIF_SEEDs,
# evidence and replays redirected to a scratch VERIF_DIR; prints one line per (property, seed)
SEEDS=${1:-"1 2 3"}; PROPS=${2:-"C02 C03 C04 C05 C07 C10 C11 C14 C16 C18 C20"}
S=/tmp/verif-sweep-scratch; mkdir -p $S; cp /verif/known_findings.jsonl $S/
for p in $PROPS; do for s in $SEEDS; do
  out=$(VERIF_SEED=$s VERIF_DIR=$S /verif/sim/target/release/simctl run --property $p --tier quick 2>&1); rc=$?
  echo "$p seed=$s exit=$rc $(echo "$out" | grep -c '^VIOLATION') violations"
  [ $rc -ne 0 ] && echo "$out" | grep -E "^  |HARNESS" | cut -c1-400 | head -6
done; done
rm -rf $S
