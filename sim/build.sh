#!/bin/sh
# incremental build from the current /repo tree; prints only errors
cd /verif/sim && CARGO_NET_OFFLINE=true cargo build --release --offline 2>&1 | grep -E "^error" -A12 | head -${1:-60}
