#!/bin/sh
# incremental build from the current /repo tree; prints only errors; exit 1 on failure
cd /verif/sim
out=$(CARGO_NET_OFFLINE=true cargo build --release --offline 2>&1)
rc=$?
if [ $rc -ne 0 ]; then echo "$out" | grep -E "^error" -A12 | head -${1:-60}; exit 1; fi
exit 0
