//! wire-sim (C11, C16): producer -> byte / JSON channel -> consumer, producer
//! and consumer in worlds of different hash entropy and a fault plan acting on
//! the bytes and JSON fields in between.  There is no timing here: this engine
//! is a fault campaign on a channel between two simulated processes.

use std::collections::{BTreeMap, HashSet};

use base64::Engine as _;
use serde_json::{json, Value as J};
use tx3_tir::encoding::{AnyTir, TirVersion};
use tx3_tir::model::core::{Type, Utxo};
use tx3_tir::model::v1beta0 as tir;
use tx3_tir::reduce::{ArgMap, ArgValue};

use crate::chain::*;
use crate::core::{Tier, WorldReport};
use crate::exec::guarded;
use crate::gen::*;
use crate::reader::canon_bytes;
use crate::tape::Tape;

/// consumer side runs with the default Rust thread stack (2 MiB): a decoder that
/// overflows it would kill a real server thread, and kills this worker
thread_local! {
    /// panics of the library's own reporting functions (find_params / find_queries) met while the
    /// harness prepares a world: recorded here, turned into violations when the world ends
    static API_PANICS: std::cell::RefCell<Vec<crate::exec::PanicInfo>> = const { std::cell::RefCell::new(Vec::new()) };
}

fn params_of(tx: &tir::Tx) -> BTreeMap<String, Type> {
    match guarded(|| tx3_tir::reduce::find_params(tx)) {
        Ok(m) => m,
        Err(p) => {
            API_PANICS.with(|v| v.borrow_mut().push(p));
            BTreeMap::new()
        }
    }
}

fn queries_of(tx: &tir::Tx) -> BTreeMap<String, tir::InputQuery> {
    match guarded(|| tx3_tir::reduce::find_queries(tx)) {
        Ok(m) => m,
        Err(p) => {
            API_PANICS.with(|v| v.borrow_mut().push(p));
            BTreeMap::new()
        }
    }
}

/// `also`: a second property under which a panic of the reporting functions counts in this world
fn drain_api_panics(rep: &mut WorldReport, also: Option<(&str, &str)>) {
    let ps: Vec<crate::exec::PanicInfo> = API_PANICS.with(|v| v.borrow_mut().drain(..).collect());
    for p in ps {
        rep.violate("C14", "P1-panic", p.site(), format!("find_params / find_queries panicked on a client-supplied IR at {}:{}: {}", p.file, p.line, p.message));
        if let Some((prop, class)) = also {
            rep.violate(prop, class, p.site(), format!("reporting the parameters of the IR in the request panicked at {}:{}: {}", p.file, p.line, p.message));
        }
    }
}

fn in_consumer<T: Send, F: FnOnce() -> T + Send>(hseed: u64, f: F) -> T {
    std::thread::scope(|s| {
        std::thread::Builder::new()
            .stack_size(2 << 20)
            .spawn_scoped(s, move || {
                crate::entropy::set_thread_seed(hseed);
                // the consumer is a server process in its own right: its clock is simulated too (a fixed
                // instant - nothing in a wire world lets time pass)
                crate::clock::enable_on_this_thread();
                f()
            })
            .expect("spawn consumer")
            .join()
            .expect("consumer thread")
    })
}

struct Produced {
    name: String,
    source: String,
    tx: tir::Tx,
    stage: &'static str,
    args: ArgMap,
    inputs: BTreeMap<String, HashSet<Utxo>>,
    program: Option<Program>,
    txname: String,
}

/// a random well-formed IR tree: what an untrusted client may put on the wire
fn produce_random(t: &mut Tape, world_no: u64) -> Produced {
    let closed = t.chance(1, 3);
    let depth = 1 + t.draw(6) as u32;
    let tx = {
        let mut g = crate::gen_tir::TirGen {
            t: &mut *t,
            params: vec![],
            queries: Default::default(),
            inputs: vec![],
            closed,
        };
        let mut tx = g.tx(depth);
        // a deep but legal value: list literals nested well beyond anything the front end emits, yet
        // within the decoder's own nesting limit
        if g.t.draw(12) == 11 {
            let d = *g.t.pick(&[35usize, 60, 90]);
            let mut e = tir::Expression::Number(7);
            for _ in 0..d {
                e = tir::Expression::List(vec![e]);
            }
            tx.metadata.push(tir::Metadata { key: tir::Expression::Number(1), value: e });
        }
        tx
    };
    let mut args = ArgMap::new();
    for (k, ty) in params_of(&tx) {
        let v = match ty {
            Type::Int => ArgValue::Int(int_boundary(t)),
            Type::Bool => ArgValue::Bool(t.chance(1, 2)),
            Type::Bytes => {
                let n = *t.pick(&[28usize, 0, 5, 32]);
                ArgValue::Bytes(t.bytes(n))
            }
            Type::Address => ArgValue::Address(addr_for(0, false, t.chance(1, 2))),
            Type::UtxoRef => ArgValue::UtxoRef(crate::gen_tir::some_ref(t)),
            Type::Undefined => ArgValue::String("x".into()),
            _ => ArgValue::Int(1),
        };
        args.insert(k, v);
    }
    let mut inputs: BTreeMap<String, HashSet<Utxo>> = BTreeMap::new();
    for (q, _) in queries_of(&tx) {
        let mut set = HashSet::new();
        set.insert(crate::gen_tir::some_utxo(t, 1));
        inputs.insert(q, set);
    }
    Produced {
        name: format!("random-ir-{world_no}"),
        source: format!("<random IR tree, depth {depth}, {}>", if closed { "closed" } else { "open" }),
        tx,
        stage: "random-tree",
        args,
        inputs,
        program: None,
        txname: "tx".into(),
    }
}

fn produce(t: &mut Tape, world_no: u64, rep: &mut WorldReport) -> Option<Produced> {
    if t.chance(1, 4) {
        return Some(produce_random(t, world_no));
    }
    produce_generated(t, world_no, rep)
}

fn produce_generated(t: &mut Tape, world_no: u64, rep: &mut WorldReport) -> Option<Produced> {
    let examples = crate::p_entropy::example_sources();
    let use_example = !examples.is_empty() && t.chance(1, 6);
    let (name, source, program) = if use_example {
        let (n, s) = examples[(world_no as usize) % examples.len()].clone();
        (n, s, None)
    } else {
        let profile = *t.pick(&[Profile::Rich, Profile::Fee, Profile::Selection, Profile::Boundary]);
        let rich = t.chance(1, 2);
        let p = gen_program(
            t,
            &GenCfg {
                profile,
                mainnet: false,
                max_txs: 2,
                force_min_utxo: None,
                rich_directives: rich,
                optional_bias: false,
            datum_bias: false,
            },
        );
        (format!("generated-{world_no}"), p.source(), Some(p))
    };
    let lowered = match guarded(|| crate::front::lower_all(&source)) {
        Ok(Ok(x)) if !x.is_empty() => x,
        other => {
            if use_example {
                rep.sample = Some(json!({"program": name, "skipped": "front end does not take this example"}));
            } else {
                rep.harness_error = Some(format!("front end rejected generated program: {other:?}\n{source}"));
            }
            return None;
        }
    };
    let names: Vec<&String> = lowered.keys().collect();
    let txname = names[t.index(names.len())].clone();
    let mut tx = lowered[&txname].clone();
    // arguments / inputs so that every Param variant, UtxoSet and reduced Assets can occur
    let mut args = ArgMap::new();
    if let Some(p) = &program {
        let spec = p.txs.iter().find(|x| x.name == txname).unwrap();
        let dist = if t.chance(1, 3) { ArgDist::Boundary } else { ArgDist::Small };
        args = gen_args(t, p, spec, &SimChain::default(), dist).args;
    }
    let mut inputs: BTreeMap<String, HashSet<Utxo>> = BTreeMap::new();
    // `into_datum` of a multi-UTxO set takes the hash-first element: an entropy effect that must
    // not be charged to the wire format, so templates that read a datum get singleton sets
    let reads_datum = format!("{tx:?}").contains("IntoDatum");
    for (qi, (q, _)) in queries_of(&tx).iter().enumerate() {
        let mut set = HashSet::new();
        let n = if reads_datum { 1 } else { 1 + t.index(3) };
        for j in 0..n {
            let mut v = Value::new();
            v.insert(None, *t.pick(&[5_000_000i128, 1, 1 << 40, u64::MAX as i128]));
            if t.chance(1, 2) {
                v.insert(Some((vec![0x11; 28], b"TKA".to_vec())), 1 + t.draw(9) as i128);
            }
            let u = SimUtxo {
                address: addr_for(0, false, false),
                value: v,
                datum: if t.chance(1, 2) {
                    Some(tir::Expression::Struct(tir::StructExpr {
                        constructor: t.index(3),
                        fields: vec![
                            tir::Expression::Number(int_boundary(t)),
                            tir::Expression::Bytes(vec![1, 2, 3]),
                            tir::Expression::List(vec![tir::Expression::Number(1), tir::Expression::Number(2)]),
                        ],
                    }))
                } else {
                    None
                },
                script: None,
            };
            set.insert(u.to_utxo(&(vec![0x70 + qi as u8; 32], j as u32)));
        }
        inputs.insert(q.clone(), set);
    }
    let stage = match t.weighted(&[4, 2, 2, 2]) {
        0 => "lowered",
        1 => "args-applied",
        2 => "inputs-applied",
        _ => "applied-and-reduced",
    };
    let staged = guarded(|| -> Result<tir::Tx, String> {
        let mut x = tx.clone();
        if stage != "lowered" {
            x = tx3_tir::reduce::apply_args(x, &args).map_err(|e| format!("{e:?}"))?;
        }
        if stage == "inputs-applied" || stage == "applied-and-reduced" {
            x = tx3_tir::reduce::apply_inputs(x, &inputs).map_err(|e| format!("{e:?}"))?;
            x = tx3_tir::reduce::apply_fees(x, 250_000).map_err(|e| format!("{e:?}"))?;
        }
        if stage == "applied-and-reduced" {
            x = tx3_tir::reduce::reduce(x).map_err(|e| format!("{e:?}"))?;
        }
        Ok(x)
    });
    match staged {
        Ok(Ok(x)) => tx = x,
        Ok(Err(_)) => {} // keep the lowered TIR
        Err(p) => {
            rep.violate("C14", "P1-panic", p.site(), format!("apply/reduce panicked while preparing a TIR: {}", p.message));
        }
    }
    Some(Produced {
        name,
        source,
        tx,
        stage,
        args,
        inputs,
        program,
        txname,
    })
}

// ---------------------------------------------------------------- byte damage

fn damage(t: &mut Tape, bytes: &mut Vec<u8>, other: &[u8], rep: &mut WorldReport) -> String {
    let kind = t.weighted(&[4, 4, 2, 2, 2, 2, 1]);
    match kind {
        0 => {
            if bytes.is_empty() {
                return "flip(empty)".into();
            }
            let i = t.index(bytes.len());
            let bit = t.draw(8);
            bytes[i] ^= 1 << bit;
            rep.fire("flip");
            format!("flip byte {i} bit {bit}")
        }
        1 => {
            let k = t.index(bytes.len() + 1);
            bytes.truncate(k);
            rep.fire("trunc");
            format!("truncate at {k}")
        }
        2 => {
            if bytes.is_empty() {
                return "dup(empty)".into();
            }
            let a = t.index(bytes.len());
            let len = 1 + t.index((bytes.len() - a).min(64));
            let chunk = bytes[a..a + len].to_vec();
            let at = t.index(bytes.len() + 1);
            bytes.splice(at..at, chunk);
            rep.fire("dup");
            format!("duplicate {len} bytes from {a} at {at}")
        }
        3 => {
            if bytes.is_empty() {
                return "zero(empty)".into();
            }
            let a = t.index(bytes.len());
            let len = 1 + t.index((bytes.len() - a).min(32));
            let fill = *t.pick(&[0u8, 0xff, 0x9f, 0xbf, 0x5f]);
            for b in &mut bytes[a..a + len] {
                *b = fill;
            }
            rep.fire("zero");
            format!("overwrite {len} bytes at {a} with {fill:#x}")
        }
        4 => {
            let k = t.index(other.len().min(bytes.len()) + 1);
            let mut out = other[..k].to_vec();
            out.extend_from_slice(&bytes[k.min(bytes.len())..]);
            *bytes = out;
            rep.fire("splice");
            format!("splice the first {k} bytes of another artifact")
        }
        5 => {
            // nesting bomb: repeated array / map / tag headers in front
            let depth = *t.pick(&[10usize, 100, 127, 128, 129, 255, 256, 257, 1000, 10_000, 100_000]);
            let hdr = *t.pick(&[0x81u8, 0x9f, 0xa1, 0xc0, 0xd8]);
            let mut out = Vec::with_capacity(depth * 2 + bytes.len());
            for _ in 0..depth {
                out.push(hdr);
                if hdr == 0xd8 {
                    out.push(0x18);
                }
                if hdr == 0xa1 {
                    out.push(0x00);
                }
            }
            out.extend_from_slice(bytes);
            *bytes = out;
            rep.fire("nest");
            format!("prefix {depth} headers {hdr:#x}")
        }
        _ if t.chance(1, 2) => {
            // the header of an existing array of small integers (a byte field in its array form: a
            // policy id, an address, a txid) rewritten to promise a huge element count
            let mut at = None;
            for i in 0..bytes.len().saturating_sub(3) {
                let short = (0x81..=0x97).contains(&bytes[i]) && bytes[i + 1] < 0x18 && bytes[i + 2] < 0x20;
                let long = bytes[i] == 0x98 && bytes[i + 2] <= 0x18 + 1;
                // ... or of a byte string (the other shape a byte field can take on the wire)
                let bstr = bytes[i] == 0x58 && (bytes[i + 1] == 0x1c || bytes[i + 1] == 0x20 || bytes[i + 1] == 0x1d || bytes[i + 1] == 0x39);
                if (short || long || bstr) && t.chance(1, 3) {
                    at = Some((i, if long || bstr { 2 } else { 1 }));
                    break;
                }
            }
            match at {
                Some((i, hl)) => {
                    let mut hdr = vec![0x9b];
                    hdr.extend((*t.pick(&[u64::MAX, (1u64 << 47) - 1, 1 << 40, 1 << 32])).to_be_bytes());
                    bytes.splice(i..i + hl, hdr);
                    rep.fire("biglen-in-place");
                    format!("array header at {i} rewritten to a huge length")
                }
                None => "biglen-in-place(no array found)".into(),
            }
        }
        _ => {
            // a length header that promises far more than is there
            if bytes.is_empty() {
                return "len(empty)".into();
            }
            let i = t.index(bytes.len());
            let major = *t.pick(&[0x80u8, 0xa0, 0x40, 0x60]);
            let mut hdr = vec![major | 27];
            hdr.extend((*t.pick(&[u64::MAX, 1 << 40, 1 << 32, 1 << 20])).to_be_bytes());
            bytes.splice(i..i, hdr);
            rep.fire("biglen");
            format!("insert a huge length header at {i}")
        }
    }
}

/// Nesting that follows the schema (so the typed decoder keeps descending) or hides under an
/// unknown top-level key (skipped through serde's IgnoredAny, which descends as well).
/// One level of nesting is encoded by the real serializer around a marker; the bytes before and
/// after the marker are then repeated `depth` times, so the producer never recurses itself.
fn schema_nest(t: &mut Tape, clean: &[u8]) -> (Vec<u8>, String) {
    const MARK: i128 = 0x0123_4567_89AB;
    let marker = tir::Expression::Number(MARK);
    let enc = |e: &tir::Expression| {
        let mut out = Vec::new();
        ciborium::into_writer(e, &mut out).unwrap();
        out
    };
    let mbytes = enc(&marker);
    let find = |hay: &[u8], needle: &[u8]| hay.windows(needle.len()).position(|w| w == needle);
    if t.chance(1, 6) {
        // well-formed CBOR with a long non-ASCII identifier where a variant name is expected: the
        // decoder quotes it in its error message
        let host = tir::Tx {
            fees: marker.clone(),
            references: vec![],
            inputs: vec![],
            outputs: vec![],
            validity: None,
            mints: vec![],
            burns: vec![],
            adhoc: vec![],
            collateral: vec![],
            signers: None,
            metadata: vec![],
        };
        let (hbytes, _) = tx3_tir::encoding::to_bytes(&host);
        let at = find(&hbytes, &mbytes).expect("marker inside host");
        let pad = *t.pick(&[0usize, 1, 2, 3]);
        let ch = *t.pick(&["é", "日", "😀", "ñ"]);
        let n = *t.pick(&[300usize, 600, 1200, 2000]);
        let ident = format!("{}{}", "a".repeat(pad), ch.repeat(n));
        let mut v = Vec::new();
        let as_text = t.chance(2, 3);
        let val = if as_text {
            ciborium::value::Value::Map(vec![(ciborium::value::Value::Text(ident.clone()), ciborium::value::Value::Integer(1.into()))])
        } else {
            ciborium::value::Value::Map(vec![(ciborium::value::Value::Bytes(vec![0xff; n.min(900)]), ciborium::value::Value::Integer(1.into()))])
        };
        ciborium::into_writer(&val, &mut v).unwrap();
        let mut out = hbytes[..at].to_vec();
        out.extend_from_slice(&v);
        out.extend_from_slice(&hbytes[at + mbytes.len()..]);
        return (out, format!("fees := a variant named by {} bytes of {}", ident.len(), if as_text { "non-ASCII text" } else { "invalid UTF-8" }));
    }
    let kind = t.draw(8);
    let (level, lname) = match kind {
        0 => (tir::Expression::List(vec![marker.clone()]), "List"),
        1 => (
            tir::Expression::Struct(tir::StructExpr {
                constructor: 0,
                fields: vec![marker.clone()],
            }),
            "Struct",
        ),
        2 => (tir::Expression::Tuple(Box::new((tir::Expression::None, marker.clone()))), "Tuple"),
        3 => (tir::Expression::Map(vec![(marker.clone(), tir::Expression::None)]), "Map"),
        4 => (
            tir::Expression::EvalBuiltIn(Box::new(tir::BuiltInOp::Add(tir::Expression::Number(1), marker.clone()))),
            "EvalBuiltIn/Add",
        ),
        5 => (
            tir::Expression::EvalBuiltIn(Box::new(tir::BuiltInOp::Negate(marker.clone()))),
            "EvalBuiltIn/Negate",
        ),
        6 => (
            tir::Expression::Assets(vec![tir::AssetExpr {
                policy: tir::Expression::None,
                asset_name: tir::Expression::None,
                amount: marker.clone(),
            }]),
            "Assets.amount",
        ),
        _ => (
            tir::Expression::EvalCoerce(Box::new(tir::Coerce::IntoAssets(marker.clone()))),
            "EvalCoerce",
        ),
    };
    let lbytes = enc(&level);
    let at = find(&lbytes, &mbytes).expect("marker inside one level");
    let (pre, post) = (&lbytes[..at], &lbytes[at + mbytes.len()..]);
    let depth = *t.pick(&[300usize, 100, 254, 255, 256, 257, 1000, 5_000, 20_000, 60_000, 65_000]);
    let mut nest = Vec::with_capacity(depth * (pre.len() + post.len()) + 8);
    for _ in 0..depth {
        nest.extend_from_slice(pre);
    }
    nest.extend_from_slice(&enc(&tir::Expression::Number(1)));
    for _ in 0..depth {
        nest.extend_from_slice(post);
    }
    // host: a small valid Tx whose `fees` is the marker
    let host = tir::Tx {
        fees: marker.clone(),
        references: vec![],
        inputs: vec![],
        outputs: vec![],
        validity: None,
        mints: vec![],
        burns: vec![],
        adhoc: vec![],
        collateral: vec![],
        signers: None,
        metadata: vec![],
    };
    let (hbytes, _) = tx3_tir::encoding::to_bytes(&host);
    if t.chance(1, 3) && !clean.is_empty() && (0xa0..0xb7).contains(&clean[0]) {
        // unknown top-level key: bump the map header of the real artifact and append `"zz": <nest>`
        let mut out = clean.to_vec();
        out[0] += 1;
        out.extend_from_slice(&[0x62, b'z', b'z']);
        // generic CBOR nesting is enough under an ignored key
        if t.chance(1, 2) {
            out.extend(std::iter::repeat(0x81u8).take(depth));
            out.push(0x01);
            return (out, format!("append unknown key with {depth} nested arrays"));
        }
        out.extend_from_slice(&nest);
        return (out, format!("append unknown key with {depth} nested {lname}"));
    }
    let at = find(&hbytes, &mbytes).expect("marker inside host");
    let mut out = hbytes[..at].to_vec();
    out.extend_from_slice(&nest);
    out.extend_from_slice(&hbytes[at + mbytes.len()..]);
    (out, format!("fees := {depth} nested {lname}"))
}

/// names that the IR references with more than one type (a client-built IR may do that); what
/// `find_params` reports for such a name is whichever reference it meets last, which follows hash
/// order - the comparison keeps the name and leaves its type out
fn conflicting_param_names(tx: &tir::Tx) -> std::collections::BTreeSet<String> {
    use ciborium::value::Value as V;
    fn walk(v: &V, seen: &mut BTreeMap<String, Vec<u8>>, out: &mut std::collections::BTreeSet<String>) {
        match v {
            V::Map(m) => {
                for (k, x) in m {
                    if let (V::Text(k), V::Array(a)) = (k, x) {
                        if k == "ExpectValue" && a.len() == 2 {
                            if let V::Text(name) = &a[0] {
                                let mut ty = vec![];
                                let _ = ciborium::into_writer(&a[1], &mut ty);
                                match seen.get(name) {
                                    Some(prev) if *prev != ty => {
                                        out.insert(name.clone());
                                    }
                                    _ => {
                                        seen.insert(name.clone(), ty);
                                    }
                                }
                            }
                        }
                    }
                    walk(k, seen, out);
                    walk(x, seen, out);
                }
            }
            V::Array(a) => a.iter().for_each(|x| walk(x, seen, out)),
            V::Tag(_, x) => walk(x, seen, out),
            _ => {}
        }
    }
    let mut seen = BTreeMap::new();
    let mut out = std::collections::BTreeSet::new();
    walk(&crate::reader::to_value(tx), &mut seen, &mut out);
    out
}

fn summarize(tx: &tir::Tx) -> (BTreeMap<String, Type>, Vec<String>) {
    let ambiguous = conflicting_param_names(tx);
    let mut params = params_of(tx);
    for (k, ty) in params.iter_mut() {
        if ambiguous.contains(k) {
            *ty = Type::Undefined;
        }
    }
    (params, queries_of(tx).keys().cloned().collect())
}

pub fn world_c11(_tier: Tier, world_no: u64, mut tape: Tape) -> WorldReport {
    let s1 = 1 + tape.draw(1 << 32);
    crate::entropy::in_world(s1, move || {
        let mut rep = WorldReport {
            world: world_no,
            ..Default::default()
        };
        let mut tape = tape;
        if let Err(p) = guarded(|| inner_c11(world_no, &mut tape, &mut rep)) {
            rep.harness_error = Some(format!("harness panic: {} at {}:{}", p.message, p.file, p.line));
        }
        drain_api_panics(&mut rep, None);
        rep.tape = tape.data.clone();
        rep
    })
}

fn inner_c11(world_no: u64, t: &mut Tape, rep: &mut WorldReport) {
    let s2 = 1 + t.draw(1 << 32);
    let Some(mut prod) = produce(t, world_no, rep) else { return };
    // an artifact of realistic bulk: a resolved template repeats every bound UTxO wherever the input is
    // mentioned, and UTxOs may carry reference scripts of many kilobytes - megabytes on the wire
    let bulk = t.draw(250) == 249;
    if bulk {
        let (n, each) = *t.pick(&[(48usize, 16_000usize), (24, 12_000), (40, 40_000), (200, 3_000)]);
        let mut set = HashSet::new();
        for i in 0..n {
            let mut u = crate::gen_tir::some_utxo(t, 0);
            u.r#ref = tx3_tir::model::core::UtxoRef::new(&[(i % 251) as u8; 32], i as u32);
            u.script = Some(tir::Expression::Bytes(vec![(i % 200) as u8 + 1; each]));
            set.insert(u);
        }
        prod.tx.references.push(tir::Expression::UtxoSet(set));
        rep.fire("bulk-artifact");
    }
    let (bytes, version) = tx3_tir::encoding::to_bytes(&prod.tx);
    let clean = bytes.clone();
    let faulty = t.chance(3, 5) && !bulk;
    let mut wire = bytes.clone();
    let mut version_str = version.to_string();
    let mut damages: Vec<String> = vec![];
    if faulty {
        // another artifact to splice from
        let other = {
            let (b, _) = tx3_tir::encoding::to_bytes(&tir::Tx {
                fees: tir::Expression::Number(7),
                references: vec![],
                inputs: vec![],
                outputs: vec![],
                validity: None,
                mints: vec![],
                burns: vec![],
                adhoc: vec![],
                collateral: vec![],
                signers: None,
                metadata: vec![],
            });
            b
        };
        if t.chance(1, 8) {
            version_str = t.pick(&["v1alpha8", "v1beta1", "", "V1BETA0", "v1beta0 "]).to_string();
            damages.push(format!("version := {version_str:?}"));
            rep.fire("version");
        } else if t.chance(1, 10) {
            // arbitrary bytes
            let n = t.index(200);
            wire = t.bytes(n);
            damages.push(format!("{n} random bytes"));
            rep.fire("random");
        } else if t.chance(1, 14) {
            // a nest built as a *value* and encoded by the real serialiser, level by level through the
            // places where one IR document carries another: a UTxO set whose UTxO's datum is a UTxO
            // set whose ... (however a level is laid out on the wire - inline or as an embedded
            // document with a decoder of its own - this is what the encoder makes of it)
            let depth = *t.pick(&[300usize, 700, 1500, 2500]);
            let mut e = tir::Expression::Number(1);
            for i in 0..depth {
                let u = Utxo {
                    r#ref: tx3_tir::model::core::UtxoRef::new(&[(i % 250) as u8; 32], 0),
                    address: vec![0x60; 29],
                    assets: tx3_tir::model::assets::CanonicalAssets::from_naked_amount(1),
                    datum: Some(e),
                    script: None,
                };
                e = tir::Expression::UtxoSet(HashSet::from([u]));
            }
            let host = tir::Tx {
                fees: e,
                references: vec![],
                inputs: vec![],
                outputs: vec![],
                validity: None,
                mints: vec![],
                burns: vec![],
                adhoc: vec![],
                collateral: vec![],
                signers: None,
                metadata: vec![],
            };
            wire = tx3_tir::encoding::to_bytes(&host).0;
            damages.push(format!("UtxoSet > Utxo.datum > UtxoSet ... nested {depth} deep, encoded by the real serialiser"));
            rep.fire("value-nest");
        } else if t.chance(1, 8) {
            // a nesting bomb the typed decoder really descends into
            let (w, what) = schema_nest(t, &clean);
            wire = w;
            damages.push(what);
            rep.fire("schema-nest");
        } else {
            let n = 1 + t.weighted(&[5, 2, 1, 1]);
            for _ in 0..n {
                damages.push(damage(t, &mut wire, &other, rep));
            }
        }
    }
    // ---- consumer: a different process (different hash entropy), default stack
    let expect_version_err = version_str != "v1beta0";
    let vs = version_str.clone();
    let w = wire.clone();
    // decode history: the consumer process may already have decoded the intact artifact under
    // its proper version (a server sees the same template many times); what it answers for the
    // artifact on the wire must not depend on that
    let warm = faulty && t.chance(1, 2);
    if warm {
        rep.fire("decode-history");
    }
    // ... and the other way round: rejected artifacts first (damaged copies, a nesting bomb), on the
    // same consumer thread, then the intact one - a decoder must come out of an error as it went in
    let mut rejected_first: Vec<Vec<u8>> = vec![];
    if !faulty && t.chance(1, 2) {
        let n = 1 + t.index(3);
        let mut scratch = WorldReport::default();
        for _ in 0..n {
            if t.chance(1, 3) {
                rejected_first.push(schema_nest(t, &clean).0);
            } else {
                let mut c = clean.clone();
                let k = 1 + t.index(2);
                for _ in 0..k {
                    damage(t, &mut c, &[0xa0], &mut scratch);
                }
                rejected_first.push(c);
            }
        }
        rep.fire("rejections-before-intact");
    }
    let clean_for_warm = clean.clone();
    let proper = version.to_string();
    let decoded = in_consumer(s2, move || {
        for bad in &rejected_first {
            let _ = guarded(|| {
                if let Ok(v) = TirVersion::try_from(proper.as_str()) {
                    let _ = tx3_tir::encoding::from_bytes(bad, v);
                }
            });
        }
        if warm {
            let _ = guarded(|| {
                if let Ok(v) = TirVersion::try_from(proper.as_str()) {
                    let _ = tx3_tir::encoding::from_bytes(&clean_for_warm, v);
                }
            });
        }
        guarded(|| -> Result<AnyTir, String> {
            let v = TirVersion::try_from(vs.as_str()).map_err(|e| format!("{e:?}"))?;
            tx3_tir::encoding::from_bytes(&w, v).map_err(|e| format!("{e:?}"))
        })
    });
    rep.evaluations = 1;
    let mut d = crate::tape::Digest::default();
    d.bytes(&wire);
    d.str(&version_str);
    let mut outcome = String::new();
    match decoded {
        Err(p) => {
            outcome = "panic".into();
            rep.violate(
                "C11",
                "W4-panic",
                p.site(),
                format!("decoding `{}` ({}) after [{}] panicked: {}", prod.name, prod.stage, damages.join("; "), p.message),
            );
        }
        Ok(Err(e)) => {
            outcome = format!("Err({})", e.chars().take(60).collect::<String>());
            if !faulty {
                rep.violate(
                    "C11",
                    "W1-roundtrip",
                    "decode-fails",
                    format!("`{}`/{} ({}): a freshly encoded TIR does not decode: {e}", prod.name, prod.txname, prod.stage),
                );
            }
        }
        Ok(Ok(AnyTir::V1Beta0(back))) => {
            if expect_version_err {
                rep.violate(
                    "C11",
                    "W4-version",
                    version_str.clone(),
                    format!("version {version_str:?} was accepted"),
                );
            }
            if !faulty || wire == clean {
                outcome = "Ok (round trip)".into();
                // W1 structure, W2 reported names, W3 same application
                if canon_bytes(&back) != canon_bytes(&prod.tx) {
                    rep.violate(
                        "C11",
                        "W1-roundtrip",
                        format!("structure/{}", prod.stage),
                        format!("`{}`/{} ({}): decode(encode(t)) differs from t", prod.name, prod.txname, prod.stage),
                    );
                }
                // the canonical form goes through the crate's own Serialize: what an encoder loses, it loses
                // on both sides of that comparison. The integers of the two values are therefore also
                // compared as the Debug rendering shows them (as multisets: hash containers print in any order)
                let ints_of = |x: &tir::Tx| {
                    let text = format!("{x:?}");
                    let mut out: Vec<String> = vec![];
                    let mut cur = String::new();
                    for c in text.chars() {
                        if c.is_ascii_digit() || (c == '-' && cur.is_empty()) {
                            cur.push(c);
                        } else {
                            if cur.len() > 3 {
                                out.push(cur.clone());
                            }
                            cur.clear();
                        }
                    }
                    out.sort();
                    out
                };
                if ints_of(&back) != ints_of(&prod.tx) {
                    rep.violate(
                        "C11",
                        "W1-roundtrip",
                        format!("integers/{}", prod.stage),
                        format!("`{}`/{} ({}): the integers of decode(encode(t)) (as Debug shows them) are not those of t", prod.name, prod.txname, prod.stage),
                    );
                }
                if summarize(&back) != summarize(&prod.tx) {
                    rep.violate(
                        "C11",
                        "W2-names",
                        prod.stage,
                        format!("`{}`/{}: reported parameters / queries differ after the round trip", prod.name, prod.txname),
                    );
                }
                let apply = |x: &tir::Tx| {
                    let x = x.clone();
                    let args = prod.args.clone();
                    let inputs = prod.inputs.clone();
                    guarded(move || -> Result<Vec<u8>, String> {
                        let x = tx3_tir::reduce::apply_args(x, &args).map_err(|e| format!("{e:?}"))?;
                        let x = tx3_tir::reduce::apply_fees(x, 250_000).map_err(|e| format!("{e:?}"))?;
                        let x = tx3_tir::reduce::apply_inputs(x, &inputs).map_err(|e| format!("{e:?}"))?;
                        let x = tx3_tir::reduce::reduce(x).map_err(|e| format!("{e:?}"))?;
                        let mut out = canon_bytes(&x);
                        // "after identical application the same transaction": fields that the serialised
                        // form cannot show (skipped or defaulted ones) still show in what the compiler emits
                        use tx3_tir::compile::Compiler as _;
                        use tx3_tir::reduce::Apply as _;
                        if x.is_constant() {
                            let mut c = crate::rsim::make_compiler(&crate::rsim::PPCfg::plain());
                            match c.compile(&AnyTir::V1Beta0(x)) {
                                Ok(tx) => out.extend(tx.payload),
                                Err(e) => out.extend(format!("compile error {}", crate::rsim::first_ident(&format!("{e:?}"))).into_bytes()),
                            }
                        }
                        Ok(out)
                    })
                };
                let (a, b) = (apply(&prod.tx), apply(&back));
                let key = |r: &Result<Result<Vec<u8>, String>, crate::exec::PanicInfo>| match r {
                    Ok(Ok(b)) => format!("ok:{}", hex::encode(crate::txread::blake2b256(b))),
                    Ok(Err(_)) => "err".to_string(),
                    Err(p) => format!("panic:{}", p.site()),
                };
                if key(&a) != key(&b) {
                    rep.violate(
                        "C11",
                        "W3-apply",
                        prod.stage,
                        format!(
                            "`{}`/{}: identical application of the original and the round-tripped TIR gives different results: {} vs {}",
                            prod.name,
                            prod.txname,
                            match &a { Ok(Ok(_)) => key(&a), Ok(Err(e)) => format!("Err({})", e.chars().take(160).collect::<String>()), Err(p) => format!("panic {}", p.site()) },
                            match &b { Ok(Ok(_)) => key(&b), Ok(Err(e)) => format!("Err({})", e.chars().take(160).collect::<String>()), Err(p) => format!("panic {}", p.site()) },
                        ),
                    );
                }
                if let Err(p) = &a {
                    rep.violate("C14", "P1-panic", p.site(), format!("apply/reduce panicked at {}:{}: {}", p.file, p.line, p.message));
                }
                if prod.stage == "random-tree" {
                    back_end_stratum(t, rep, &back, &prod);
                }
            } else {
                outcome = "Ok (damaged but decodable)".into();
                rep.probe("decode-after-damage-succeeded");
                // forwarded to the back end: C14 judges what happens next
                back_end_stratum(t, rep, &back, &prod);
            }
        }
    }
    rep.digest = d.0;
    rep.sig = crate::tape::mix_str(damages.len() as u64, &outcome.chars().take(12).collect::<String>());
    rep.nontrivial = true;
    rep.events = 1 + damages.len() as u64;
    rep.sample = Some(json!({
        "engine": "wire-sim (TIR bytes)",
        "program": prod.name,
        "tx": prod.txname,
        "stage": prod.stage,
        "encoded_len": clean.len(),
        "wire_len": wire.len(),
        "version": version_str,
        "damage": damages,
        "producer_hash_seed": "world seed",
        "consumer_hash_seed": s2,
        "consumer_outcome": outcome,
        "source": crate::tape::clip(&prod.source, 1500),
        "wire_hex_head": hex::encode(&wire[..wire.len().min(48)]),
    }));
}

/// a damaged-but-decodable (or client-supplied) IR goes through the real resolver
fn back_end_stratum(t: &mut Tape, rep: &mut WorldReport, tx: &tir::Tx, prod: &Produced) {
    use crate::compiler::SimCompiler;
    use crate::rsim::*;
    let mut w = crate::world::World::new(Tape::replay(vec![]));
    if let Some(p) = &prod.program {
        let cfg = LedgerCfg {
            size: 1 + t.index(5),
            dist: AmountDist::Comfortable,
            ties: false,
            distinct: false,
            hostile_datums: false,
        };
        gen_ledger(t, &mut w, p, &cfg);
    }
    let w = w.into_shared();
    let pp = PPCfg::plain();
    let mut comp = SimCompiler::new(make_compiler(&pp));
    comp.record = false;
    // type-directed args for whatever the damaged IR now asks for
    let mut args = prod.args.clone();
    for (k, ty) in params_of(tx) {
        if args.contains_key(&k) {
            continue;
        }
        let v = match ty {
            Type::Int => ArgValue::Int(int_boundary(t)),
            Type::Bool => ArgValue::Bool(true),
            Type::Bytes => ArgValue::Bytes(t.bytes(5)),
            Type::Address => ArgValue::Address(addr_for(0, false, false)),
            Type::UtxoRef => ArgValue::UtxoRef(unrk(&(vec![9; 32], 0))),
            _ => ArgValue::Int(1),
        };
        args.insert(k, v);
    }
    let res = resolve_once(&w, tx, &args, &mut comp, 3, None);
    rep.fire("damaged-ir-to-backend");
    match &res.outcome {
        Outcome::Panic(p) => rep.violate(
            "C14",
            "P1-panic",
            p.site(),
            format!("resolving a decodable IR panicked at {}:{}: {}", p.file, p.line, p.message),
        ),
        Outcome::Hung(s) => rep.violate("C14", "P3-hang", "resolve_tx", format!("resolving a decodable IR: {s}")),
        _ => {}
    }
}

/// C14 only: a random IR tree a client may send goes through apply, reduce and the resolver
pub fn world_ir(_tier: Tier, world_no: u64, mut tape: Tape) -> WorldReport {
    let s1 = 1 + tape.draw(1 << 32);
    crate::entropy::in_world(s1, move || {
        let mut rep = WorldReport {
            world: world_no,
            ..Default::default()
        };
        let mut tape = tape;
        let r = guarded(|| {
            let t = &mut tape;
            // either a fully random tree, or a valid lowered template with one random graft
            // (so that the anomaly reaches the deep paths of apply / reduce / compile)
            let mut scratch = WorldReport::default();
            let prod = if t.chance(1, 2) {
                produce_random(t, world_no)
            } else {
                match produce_generated(t, world_no, &mut scratch) {
                    Some(mut p) => {
                        let n = 1 + t.index(2);
                        for _ in 0..n {
                            let mut g = crate::gen_tir::TirGen {
                                t: &mut *t,
                                params: vec![],
                                queries: Default::default(),
                                inputs: vec![],
                                closed: true,
                            };
                            match g.t.draw(6) {
                                0 | 1 | 2 => {
                                    let a = g.adhoc(2);
                                    p.tx.adhoc.push(a);
                                }
                                3 => {
                                    if let Some(o) = p.tx.outputs.first_mut() {
                                        o.datum = g.expr(3);
                                    }
                                }
                                4 => {
                                    let (k, v) = (g.expr(1), g.expr(2));
                                    p.tx.metadata.push(tir::Metadata { key: k, value: v });
                                }
                                _ => {
                                    let e = g.expr(2);
                                    p.tx.signers = Some(tir::Signers { signers: vec![e] });
                                }
                            }
                        }
                        p.stage = "valid-template-with-random-graft";
                        p
                    }
                    None => produce_random(t, world_no),
                }
            };
            let tx = prod.tx.clone();
            let (args, inputs) = (prod.args.clone(), prod.inputs.clone());
            let staged = guarded(move || -> Result<(), String> {
                let x = tx3_tir::reduce::apply_args(tx, &args).map_err(|e| format!("{e:?}"))?;
                let x = tx3_tir::reduce::apply_fees(x, 180_000).map_err(|e| format!("{e:?}"))?;
                let x = tx3_tir::reduce::reduce(x).map_err(|e| format!("{e:?}"))?;
                let x = tx3_tir::reduce::apply_inputs(x, &inputs).map_err(|e| format!("{e:?}"))?;
                let _ = tx3_tir::reduce::reduce(x).map_err(|e| format!("{e:?}"))?;
                Ok(())
            });
            let mut rep2 = WorldReport::default();
            if let Err(p) = &staged {
                rep2.violate("C14", "P1-panic", p.site(), format!("apply/reduce of a client-supplied IR panicked at {}:{}: {}", p.file, p.line, p.message));
            }
            back_end_stratum(t, &mut rep2, &prod.tx, &prod);
            let mut d = crate::tape::Digest::default();
            d.bytes(&tx3_tir::encoding::to_bytes(&prod.tx).0);
            (rep2, d.0, prod.source.clone(), format!("{:?}", staged.as_ref().map(|r| r.as_ref().map(|_| "Ok").map_err(|e| e.chars().take(80).collect::<String>())).map_err(|p| p.site())))
        });
        match r {
            Ok((rep2, digest, what, staged)) => {
                rep.violations = rep2.violations;
                rep.fired = rep2.fired;
                rep.digest = digest;
                rep.sig = crate::tape::mix_str(1, &staged.chars().take(16).collect::<String>());
                rep.nontrivial = true;
                rep.evaluations = 2;
                rep.events = 2;
                rep.sample = Some(json!({"engine": "wire-sim (client-supplied IR to the back end)", "ir": what, "apply_reduce": staged}));
            }
            Err(p) => rep.harness_error = Some(format!("harness panic: {} at {}:{}", p.message, p.file, p.line)),
        }
        drain_api_panics(&mut rep, None);
        rep.tape = tape.data.clone();
        rep
    })
}

// ================================================================ C16

#[derive(Clone, Debug)]
enum Intended {
    Int(i128),
    Bool(bool),
    Bytes(Vec<u8>),
    Address(Vec<u8>),
    UtxoRef(Vec<u8>, u32),
}

fn same_arg(i: &Intended, a: &ArgValue) -> bool {
    match (i, a) {
        (Intended::Int(x), ArgValue::Int(y)) => x == y,
        (Intended::Bool(x), ArgValue::Bool(y)) => x == y,
        (Intended::Bytes(x), ArgValue::Bytes(y)) => x == y,
        (Intended::Address(x), ArgValue::Address(y)) => x == y,
        (Intended::UtxoRef(x, i), ArgValue::UtxoRef(r)) => x == &r.txid && *i == r.index,
        _ => false,
    }
}

fn hex16(v: i128) -> String {
    format!("0x{}", hex::encode(v.to_be_bytes()))
}

/// hex digits are case-insensitive: a client may write them in upper or mixed case (the `0x` prefix
/// and everything that is not a hex digit stay as they are)
fn recase(t: &mut Tape, j: J, label: String) -> (J, String) {
    let mode = t.weighted(&[4, 1, 1]);
    if mode == 0 {
        return (j, label);
    }
    fn up(s: &str, mode: usize) -> String {
        let body_from = if s.starts_with("0x") { 2 } else { 0 };
        s.char_indices()
            .map(|(i, c)| if i >= body_from && c.is_ascii_hexdigit() && (mode == 1 || i % 3 == 0) { c.to_ascii_uppercase() } else { c })
            .collect()
    }
    let j2 = match &j {
        J::String(x) => J::String(up(x, mode)),
        J::Object(o) if o.get("contentType").or(o.get("encoding")).and_then(|x| x.as_str()) == Some("hex") => {
            let mut o = o.clone();
            if let Some(J::String(c)) = o.get("content").cloned() {
                o.insert("content".into(), J::String(up(&c, mode)));
            }
            J::Object(o)
        }
        _ => return (j, label),
    };
    (j2, format!("{label}-{}", if mode == 1 { "upper" } else { "mixed" }))
}

/// render an intended value through one admissible textual encoding
fn render(t: &mut Tape, v: &Intended) -> (J, String) {
    let (j, label) = render_plain(t, v);
    let hexish = matches!(label.as_str(), "hex16" | "hex" | "0xhex" | "envelope-hex" | "txid#index");
    if hexish {
        recase(t, j, label)
    } else {
        (j, label)
    }
}

fn render_plain(t: &mut Tape, v: &Intended) -> (J, String) {
    match v {
        Intended::Int(n) => match t.weighted(&[3, 3, 3]) {
            0 if *n >= i64::MIN as i128 && *n <= u64::MAX as i128 => {
                if *n >= 0 {
                    (json!(*n as u64), "number".into())
                } else {
                    (json!(*n as i64), "number".into())
                }
            }
            1 => (json!(hex16(*n)), "hex16".into()),
            _ => (json!(n.to_string()), "decimal-string".into()),
        },
        Intended::Bool(b) => match t.draw(3) {
            0 => (json!(*b), "bool".into()),
            1 => (json!(if *b { 1 } else { 0 }), "number".into()),
            _ => (json!(if *b { "true" } else { "false" }), "string".into()),
        },
        Intended::Bytes(b) => match t.draw(5) {
            0 => (json!(hex::encode(b)), "hex".into()),
            1 => (json!(format!("0x{}", hex::encode(b))), "0xhex".into()),
            2 => (json!({"content": hex::encode(b), "contentType": "hex"}), "envelope-hex".into()),
            3 => (
                json!({"content": base64::engine::general_purpose::STANDARD.encode(b), "encoding": "base64"}),
                "envelope-base64".into(),
            ),
            _ => (
                json!({"payload": base64::engine::general_purpose::STANDARD.encode(b), "contentType": "base64"}),
                "envelope-base64-alias".into(),
            ),
        },
        Intended::Address(a) => match t.draw(3) {
            0 => (json!(hex::encode(a)), "hex".into()),
            1 => {
                // the prefix CIP-5 gives this kind of address on this network
                let test = a.first().map(|h| h & 0x0f == 0).unwrap_or(true);
                let reward = a.first().map(|h| h >> 4 >= 14).unwrap_or(false);
                let hrp_s = match (reward, test) {
                    (true, true) => "stake_test",
                    (true, false) => "stake",
                    (false, true) => "addr_test",
                    (false, false) => "addr",
                };
                let hrp = bech32::Hrp::parse(hrp_s).unwrap();
                (json!(bech32::encode::<bech32::Bech32>(hrp, a).unwrap()), format!("bech32/{hrp_s}"))
            }
            _ => (json!(format!("0x{}", hex::encode(a))), "0xhex".into()),
        },
        Intended::UtxoRef(txid, ix) => (json!(format!("{}#{}", hex::encode(txid), ix)), "txid#index".into()),
    }
}

/// an ill-formed rendering for the type: must be rejected
fn render_bad(t: &mut Tape, ty: &Type) -> (J, String) {
    match ty {
        Type::Int => match t.draw(7) {
            0 => (json!("0x00112233445566778899aabbccddee"), "hex-15-bytes".into()),
            1 => (json!("0x00112233445566778899aabbccddeeff00"), "hex-17-bytes".into()),
            2 => (json!("12a"), "decimal-with-letter".into()),
            3 => (json!(""), "empty-string".into()),
            4 => match t.draw(3) {
                0 => (json!(1.5), "float".into()),
                // beyond 64 bits a JSON number reaches the server as a double: the digits are gone
                1 => (json!(18446744073709551617.0f64), "number-beyond-u64".into()),
                _ => (json!(-1.0e30f64), "number-beyond-i64".into()),
            },
            5 => (json!("0xzz112233445566778899aabbccddeeff"), "hex-bad-chars".into()),
            _ => (json!([1]), "array".into()),
        },
        Type::Bool => match t.draw(4) {
            0 => (json!(2), "number-2".into()),
            1 => (json!("yes"), "string-yes".into()),
            2 => (J::Null, "null".into()),
            _ => (json!("TRUE"), "string-upper".into()),
        },
        Type::Bytes => match t.draw(5) {
            0 => (json!("abc"), "odd-length-hex".into()),
            1 => (json!("zz"), "non-hex".into()),
            2 => (json!({"content": "abc", "contentType": "hex"}), "envelope-odd-hex".into()),
            3 => (json!({"content": "!!!", "contentType": "base64"}), "envelope-bad-base64".into()),
            _ => (json!(5), "number".into()),
        },
        Type::Address => match t.draw(3) {
            0 => (json!("addr_test1notreallybech32"), "broken-bech32".into()),
            1 => (json!("abc"), "odd-length-hex".into()),
            _ => (json!(7), "number".into()),
        },
        Type::UtxoRef => match t.draw(5) {
            0 => (json!("aabb"), "no-hash-sign".into()),
            1 => (json!("zz#1"), "non-hex-txid".into()),
            2 => (json!("aabb#x"), "non-numeric-index".into()),
            3 => (json!("aabb#4294967296"), "index-beyond-u32".into()),
            _ => (json!(1), "number".into()),
        },
        _ => (J::Null, "null".into()),
    }
}

fn intended_for(t: &mut Tape, ty: &Type) -> Option<Intended> {
    Some(match ty {
        Type::Int => Intended::Int(if t.chance(1, 2) { int_boundary(t) } else { t.draw(1 << 40) as i128 - (1 << 39) }),
        Type::Bool => Intended::Bool(t.chance(1, 2)),
        Type::Bytes => {
            let n = *t.pick(&[4usize, 0, 1, 28, 32, 64]);
            Intended::Bytes(t.bytes(n))
        }
        Type::Address => match t.draw(5) {
            // a reward (stake) address of either network: header 0xE0 | network, then the credential
            4 => {
                let mut a = vec![0xE0u8 | (t.draw(2) as u8)];
                a.extend(std::iter::repeat(0x5E).take(28));
                Intended::Address(a)
            }
            // a payment address on main-net
            3 => Intended::Address(addr_for(t.index(3), true, t.chance(1, 2))),
            _ => Intended::Address(addr_for(t.index(3), false, t.chance(1, 2))),
        },
        Type::UtxoRef => {
            let n = *t.pick(&[32usize, 1, 0, 33]);
            Intended::UtxoRef(t.bytes(n), *t.pick(&[0u32, 1, u32::MAX]))
        }
        _ => return None,
    })
}

fn arg_type_name(ty: &Type) -> &'static str {
    match ty {
        Type::Int => "Int",
        Type::Bool => "Bool",
        Type::Bytes => "Bytes",
        Type::Address => "Address",
        Type::UtxoRef => "UtxoRef",
        _ => "other",
    }
}

fn random_json(t: &mut Tape, depth: u32) -> J {
    match t.draw(if depth > 3 { 5 } else { 7 }) {
        0 => J::Null,
        1 => json!(t.draw(1000) as i64 - 500),
        2 => json!(String::from_utf8_lossy(&t.bytes(6)).to_string()),
        3 => json!(t.chance(1, 2)),
        4 => json!(1.0e300),
        5 => J::Array((0..t.index(4)).map(|_| random_json(t, depth + 1)).collect()),
        _ => {
            let mut m = serde_json::Map::new();
            for _ in 0..t.index(4) {
                let k = t.pick(&["args", "tir", "env", "content", "encoding", "version", "x", "contentType"]).to_string();
                m.insert(k, random_json(t, depth + 1));
            }
            J::Object(m)
        }
    }
}

pub fn world_c16(_tier: Tier, world_no: u64, mut tape: Tape) -> WorldReport {
    let s1 = 1 + tape.draw(1 << 32);
    crate::entropy::in_world(s1, move || {
        let mut rep = WorldReport {
            world: world_no,
            ..Default::default()
        };
        let mut tape = tape;
        if let Err(p) = guarded(|| inner_c16(world_no, &mut tape, &mut rep)) {
            rep.harness_error = Some(format!("harness panic: {} at {}:{}", p.message, p.file, p.line));
        }
        drain_api_panics(&mut rep, Some(("C16", "J3-panic")));
        rep.tape = tape.data.clone();
        rep
    })
}

fn inner_c16(world_no: u64, t: &mut Tape, rep: &mut WorldReport) {
    let s2 = 1 + t.draw(1 << 32);
    let mut d = crate::tape::Digest::default();
    let mut notes: Vec<String> = vec![];

    // ---- J1: per (type, encoding) inversion and rejection, direct calls
    for ty in [Type::Int, Type::Bool, Type::Bytes, Type::Address, Type::UtxoRef] {
        let Some(v) = intended_for(t, &ty) else { continue };
        let (j, enc) = render(t, &v);
        let jj = j.clone();
        let tyy = ty.clone();
        let r = in_consumer(s2, move || guarded(|| tx3_resolver::interop::from_json(jj, &tyy).map_err(|e| format!("{e}"))));
        rep.evaluations += 1;
        d.str(&format!("{j}"));
        let shape = format!("{}/{}", arg_type_name(&ty), enc);
        match r {
            Err(p) => rep.violate("C16", "J3-panic", p.site(), format!("from_json({j}, {ty:?}) panicked: {}", p.message)),
            Ok(Err(e)) => rep.violate("C16", "J1-invert", shape, format!("from_json({j}, {ty:?}) = Err({e}) but the value is the {enc} encoding of {v:?}")),
            Ok(Ok(a)) => {
                if !same_arg(&v, &a) {
                    rep.violate("C16", "J1-invert", shape, format!("from_json({j}, {ty:?}) = {a:?} but the client meant {v:?}"));
                }
            }
        }
        let (bad, why) = render_bad(t, &ty);
        let bb = bad.clone();
        let tyy = ty.clone();
        let r = in_consumer(s2, move || guarded(|| tx3_resolver::interop::from_json(bb, &tyy).map_err(|e| format!("{e}"))));
        rep.evaluations += 1;
        match r {
            Err(p) => rep.violate("C16", "J3-panic", p.site(), format!("from_json({bad}, {ty:?}) panicked: {}", p.message)),
            Ok(Ok(a)) => rep.violate(
                "C16",
                "J1-reject",
                format!("{}/{}", arg_type_name(&ty), why),
                format!("from_json({bad}, {ty:?}) accepted an ill-formed value ({why}) as {a:?}"),
            ),
            Ok(Err(_)) => {}
        }
    }

    // ---- J2/J3: a whole request through the channel
    let Some(prod) = produce(t, world_no, rep) else { return };
    let lowered_only = matches!(prod.stage, "lowered");
    let (bytes, version) = tx3_tir::encoding::to_bytes(&prod.tx);
    let mut from_source_only: Vec<String> = vec![];
    let mut declared = params_of(&prod.tx);
    // a name the IR references with two types has no single declared type (which one is reported
    // follows hash order): the client model leaves such names alone
    let ambiguous = conflicting_param_names(&prod.tx);
    declared.retain(|k, _| !ambiguous.contains(k));
    // what the template declares is also known from the source it was lowered from: every parameter of
    // the transaction that the generator wrote a use for (all of them, by construction). The client
    // model supplies those too - the table the server looks parameters up in is the server's own.
    if lowered_only {
        if let Some(p) = &prod.program {
            if let Some(spec) = p.txs.iter().find(|x| x.name == prod.txname) {
                // the body of this transaction in the source text: a parameter counts as used when its
                // name occurs there as a whole word
                let src = p.source();
                let body: String = src
                    .split(&format!("tx {}(", prod.txname))
                    .nth(1)
                    .and_then(|rest| rest.split_once(") {").map(|x| x.1))
                    .map(|b| b.split("\ntx ").next().unwrap_or("").to_string())
                    .unwrap_or_default();
                let used = |name: &str| {
                    let bytes = body.as_bytes();
                    body.match_indices(name).any(|(i, _)| {
                        let before = i == 0 || !(bytes[i - 1].is_ascii_alphanumeric() || bytes[i - 1] == b'_');
                        let j = i + name.len();
                        let after = j >= bytes.len() || !(bytes[j].is_ascii_alphanumeric() || bytes[j] == b'_');
                        // not as a list index (`xs[name]`): the tree neither reports nor binds a parameter in
                        // that position (Composite for BuiltInOp::Property exposes the object only) - what a
                        // template reports is C06's matter, outside the claimed set; left out here
                        let as_index = i > 0 && bytes[i - 1] == b'[' && j < bytes.len() && bytes[j] == b']';
                        before && after && !as_index
                    })
                };
                for (n, ty) in &spec.params {
                    if !used(n) {
                        continue;
                    }
                    let key = n.to_lowercase();
                    let ty = match ty {
                        crate::gen::Ty::Int => Type::Int,
                        crate::gen::Ty::Bytes => Type::Bytes,
                        crate::gen::Ty::UtxoRef => Type::UtxoRef,
                        crate::gen::Ty::Bool => Type::Bool,
                    };
                    if !declared.contains_key(&key) {
                        rep.probe("source-parameter-missing-from-find_params");
                        from_source_only.push(key.clone());
                        declared.insert(key, ty);
                    }
                }
            }
        }
    }
    let mut intended: BTreeMap<String, Intended> = BTreeMap::new();
    let mut args_map = serde_json::Map::new();
    let mut env_map = serde_json::Map::new();
    let mut placed: BTreeMap<String, &'static str> = BTreeMap::new();
    let use_env = t.chance(1, 2);
    let mut supplied_without_form: Vec<String> = vec![];
    for (k, ty) in &declared {
        // a client may leave a parameter out
        if t.chance(1, 10) {
            continue;
        }
        let Some(v) = intended_for(t, ty) else {
            // a declared parameter of a type that has no JSON form (list, map, record, ...): a client
            // may supply a value all the same; the request may be refused, but it may not succeed
            // without handing the template what was supplied for a declared name
            if t.chance(1, 3) {
                let j = match t.draw(3) {
                    0 => json!([1, 2]),
                    1 => json!({"a": 1}),
                    _ => json!("0a0b"),
                };
                if use_env && t.chance(1, 2) {
                    env_map.insert(k.clone(), j);
                } else {
                    args_map.insert(k.clone(), j);
                }
                supplied_without_form.push(k.clone());
                rep.fire("declared-parameter-without-json-form-supplied");
            }
            continue;
        };
        let (j, _) = render(t, &v);
        if use_env && t.chance(1, 2) {
            env_map.insert(k.clone(), j);
            placed.insert(k.clone(), "env");
        } else {
            args_map.insert(k.clone(), j);
            placed.insert(k.clone(), "args");
        }
        intended.insert(k.clone(), v);
    }
    // undeclared extras: unrelated names, and names that differ from a declared one only by case
    // or by surrounding blanks (parameter names are exact strings)
    let extras = t.index(3);
    for i in 0..extras {
        let near = if !declared.is_empty() && t.chance(1, 2) {
            let (dk, dty) = declared.iter().nth(t.index(declared.len())).unwrap();
            let variant = match t.draw(4) {
                0 => dk.to_uppercase(),
                1 => dk.to_lowercase(),
                2 => {
                    let mut c = dk.chars();
                    c.next().map(|f| f.to_uppercase().collect::<String>() + c.as_str()).unwrap_or_default()
                }
                _ => format!(" {dk}"),
            };
            if declared.contains_key(&variant) || variant.is_empty() {
                None
            } else {
                // a well-formed value of the declared type (different from the real one) or junk
                let j = if t.chance(2, 3) {
                    intended_for(t, dty).map(|v| render(t, &v).0).unwrap_or(J::Null)
                } else {
                    random_json(t, 1)
                };
                Some((variant, j))
            }
        } else {
            None
        };
        let (k, j) = match near {
            Some(x) => {
                rep.fire("near-miss-extra");
                x
            }
            None => (format!("extra_{i}"), random_json(t, 2)),
        };
        if t.chance(1, 2) {
            args_map.insert(k, j);
        } else {
            env_map.insert(k, j);
        }
    }
    let b64 = t.chance(1, 3);
    let content = if b64 {
        base64::engine::general_purpose::STANDARD.encode(&bytes)
    } else {
        hex::encode(&bytes)
    };
    let content_key = *t.pick(&["content", "bytecode", "payload"]);
    let mut doc = json!({
        "tir": { content_key: content, "encoding": if b64 { "base64" } else { "hex" }, "version": version.to_string() },
        "args": J::Object(args_map),
    });
    if use_env || t.chance(1, 3) {
        doc["env"] = J::Object(env_map);
    }
    // ---- channel faults
    let stratum = t.weighted(&[5, 4, 1]);
    let mut fault_free = stratum == 0;
    if stratum == 1 {
        let n = 1 + t.index(3);
        for _ in 0..n {
            let which = t.draw(9);
            let tir_ok = doc.get("tir").map(|x| x.is_object()).unwrap_or(false);
            let args_ok = doc.get("args").map(|x| x.is_object()).unwrap_or(false);
            if (matches!(which, 0 | 1 | 2 | 8) && !tir_ok) || (matches!(which, 3 | 4 | 5 | 6) && !args_ok) {
                continue;
            }
            match which {
                0 => {
                    // content damage: odd length, non-hex characters, truncated
                    let c = doc["tir"][content_key].as_str().unwrap_or("").to_string();
                    let mut c: Vec<char> = c.chars().collect();
                    match t.draw(4) {
                        0 => {
                            c.pop();
                        }
                        1 => {
                            if !c.is_empty() {
                                let i = t.index(c.len());
                                c[i] = *t.pick(&['z', '#', ' ', 'é', '=']);
                            }
                        }
                        2 => {
                            let k = t.index(c.len() + 1);
                            c.truncate(k);
                        }
                        _ => {
                            c.insert(0, '0');
                            c.insert(1, 'x');
                        }
                    }
                    doc["tir"][content_key] = json!(c.into_iter().collect::<String>());
                    notes.push("damage envelope content".into());
                    rep.fire("content");
                }
                1 => {
                    doc["tir"]["encoding"] = json!(if b64 { "hex" } else { "base64" });
                    notes.push("swap encoding tag".into());
                    rep.fire("encoding-tag");
                }
                2 => {
                    doc["tir"]["version"] = json!(t.pick(&["v1alpha8", "v9", "", "v1beta0\n"]).to_string());
                    notes.push("corrupt version".into());
                    rep.fire("version");
                }
                3 => {
                    // fieldloss
                    if let Some(m) = doc["args"].as_object_mut() {
                        if let Some(k) = m.keys().next().cloned() {
                            m.remove(&k);
                            intended.remove(&k);
                            placed.remove(&k);
                        }
                    }
                    notes.push("drop one argument".into());
                    rep.fire("fieldloss");
                }
                4 => {
                    // fieldmove: args -> env
                    let moved = doc["args"].as_object().and_then(|m| m.iter().next().map(|(k, v)| (k.clone(), v.clone())));
                    if let Some((k, v)) = moved {
                        doc["args"].as_object_mut().unwrap().remove(&k);
                        if !doc.get("env").map(|x| x.is_object()).unwrap_or(false) {
                            doc["env"] = json!({});
                        }
                        doc["env"][&k] = v;
                        if placed.contains_key(&k) {
                            placed.insert(k, "env");
                        }
                    }
                    notes.push("move one argument to env".into());
                    rep.fire("fieldmove");
                }
                5 => {
                    // typeconf: change a value's JSON type
                    if let Some(m) = doc["args"].as_object_mut() {
                        if let Some(k) = m.keys().next().cloned() {
                            m.insert(k.clone(), random_json(t, 2));
                            intended.remove(&k);
                        }
                    }
                    notes.push("change the JSON type of one argument".into());
                    rep.fire("typeconf");
                }
                6 => {
                    // fielddup: same key in both maps, different values
                    let dup = doc["args"].as_object().and_then(|m| m.iter().next().map(|(k, _)| k.clone()));
                    if let Some(k) = dup {
                        if !doc.get("env").map(|x| x.is_object()).unwrap_or(false) {
                            doc["env"] = json!({});
                        }
                        doc["env"][&k] = random_json(t, 2);
                        intended.remove(&k);
                    }
                    notes.push("duplicate one key under env".into());
                    rep.fire("fielddup");
                }
                7 => {
                    let which = *t.pick(&["tir", "args", "env"]);
                    doc[which] = random_json(t, 1);
                    intended.clear();
                    notes.push(format!("replace `{which}` by arbitrary JSON"));
                    rep.fire("fieldreplace");
                }
                _ => {
                    // byte damage under the text encoding
                    let mut raw = bytes.clone();
                    // the same catalogue as on the raw channel, including nesting the typed decoder
                    // descends into and over-long identifiers
                    let note = if t.chance(1, 3) {
                        let (w, what) = schema_nest(t, &bytes);
                        raw = w;
                        rep.fire("schema-nest");
                        what
                    } else {
                        damage(t, &mut raw, &[0xa0], rep)
                    };
                    doc["tir"][content_key] = json!(if b64 {
                        base64::engine::general_purpose::STANDARD.encode(&raw)
                    } else {
                        hex::encode(&raw)
                    });
                    intended.clear();
                    notes.push(format!("TIR bytes: {note}"));
                }
            }
        }
    } else if stratum == 2 {
        doc = random_json(t, 0);
        notes.push("arbitrary JSON document".into());
        rep.fire("random-doc");
        intended.clear();
    }
    if !lowered_only {
        // partially applied IRs are legal requests, but their reported parameters are a moving target
        fault_free = fault_free && true;
    }
    d.str(&doc.to_string());
    // a server thread has a past: before a well-formed request, zero to two requests that the boundary
    // refuses (a retired version over a good payload of another template, a payload cut short, a
    // damaged payload, text that is not hex) are parsed on the same thread
    let mut predecessors: Vec<J> = vec![];
    if fault_free && t.chance(1, 3) {
        let n = 1 + t.index(2);
        for _ in 0..n {
            let other = {
                let mut g = crate::gen_tir::TirGen {
                    t: &mut *t,
                    params: vec![],
                    queries: Default::default(),
                    inputs: vec![],
                    closed: false,
                };
                let tx = g.tx(1);
                tx3_tir::encoding::to_bytes(&tx).0
            };
            let (raw, ver, note): (Vec<u8>, String, &str) = match t.draw(4) {
                0 => (other, "v1alpha8".to_string(), "retired version over another template"),
                1 => {
                    let k = 1 + t.index(bytes.len().max(2) - 1);
                    (bytes[..k.min(bytes.len())].to_vec(), version.to_string(), "payload cut short")
                }
                2 => {
                    let mut o = other;
                    let _ = damage(t, &mut o, &[0xa0], rep);
                    (o, version.to_string(), "damaged payload of another template")
                }
                _ => (vec![], version.to_string(), "text that is not hex"),
            };
            let content = if raw.is_empty() { "zz-not-hex".to_string() } else { hex::encode(&raw) };
            predecessors.push(json!({"tir": {"content": content, "encoding": "hex", "version": ver}, "args": {}}));
            notes.push(format!("predecessor on the thread: {note}"));
            rep.fire("rejected-predecessor");
        }
    }
    let docc = doc.clone();
    let (pred_panics, parsed) = in_consumer(s2, move || {
        let mut pred_panics = vec![];
        for pdoc in predecessors {
            let r = guarded(|| -> Result<(AnyTir, ArgMap), String> {
                let req: tx3_resolver::trp::ResolveParams = serde_json::from_value(pdoc).map_err(|e| format!("request: {e}"))?;
                tx3_resolver::trp::parse_resolve_request(req).map_err(|e| format!("{e}"))
            });
            if let Err(p) = r {
                pred_panics.push(p);
            }
        }
        let parsed = guarded(|| -> Result<(AnyTir, ArgMap), String> {
            let req: tx3_resolver::trp::ResolveParams = serde_json::from_value(docc).map_err(|e| format!("request: {e}"))?;
            tx3_resolver::trp::parse_resolve_request(req).map_err(|e| format!("{e}"))
        });
        (pred_panics, parsed)
    });
    for p in pred_panics {
        rep.violate("C16", "J3-panic", p.site(), format!("parse_resolve_request panicked on a refused predecessor request: {}", p.message));
    }
    rep.evaluations += 1;
    let outcome;
    match parsed {
        Err(p) => {
            outcome = "panic".to_string();
            rep.violate(
                "C16",
                "J3-panic",
                p.site(),
                format!("parse_resolve_request panicked on a request after [{}]: {}", notes.join("; "), p.message),
            );
        }
        Ok(Err(e)) => {
            outcome = format!("Err({})", e.chars().take(80).collect::<String>());
            if fault_free && supplied_without_form.is_empty() {
                rep.violate(
                    "C16",
                    "J2-args",
                    "valid-request-rejected",
                    format!("a well-formed request for `{}`/{} was rejected: {e}", prod.name, prod.txname),
                );
            }
        }
        Ok(Ok((AnyTir::V1Beta0(tir_back), got))) => {
            outcome = format!("Ok({} args)", got.len());
            if fault_free {
                for k in &supplied_without_form {
                    if !got.contains_key(k) {
                        rep.violate(
                            "C16",
                            "J2-args",
                            "supplied-but-missing/type-without-json-form",
                            format!("declared parameter `{k}` ({:?}) was supplied, the request was accepted, but the argument map lacks it", declared.get(k)),
                        );
                    }
                }
                // exactly the declared parameters the request supplies, under args or env, with their intended values
                for (k, v) in &intended {
                    match got.get(k) {
                        None => rep.violate(
                            "C16",
                            "J2-args",
                            format!("supplied-under-{}-but-missing", placed.get(k).copied().unwrap_or("?")),
                            format!("declared parameter `{k}` was supplied under `{}` but is absent from the argument map", placed.get(k).copied().unwrap_or("?")),
                        ),
                        Some(a) => {
                            if !same_arg(v, a) {
                                rep.violate("C16", "J2-args", "wrong-value", format!("parameter `{k}`: template receives {a:?}, client meant {v:?}"));
                            }
                        }
                    }
                }
                for k in got.keys() {
                    if !declared.contains_key(k) {
                        rep.violate("C16", "J2-args", "undeclared-key-kept", format!("undeclared key `{k}` reached the argument map"));
                    }
                    if !intended.contains_key(k) && !supplied_without_form.contains(k) {
                        rep.violate("C16", "J2-args", "unsupplied-key-present", format!("key `{k}` is in the argument map but the request did not supply it"));
                    }
                }
                if canon_bytes(&tir_back) != canon_bytes(&prod.tx) {
                    rep.violate("C16", "J2-args", "tir-differs", "the IR handed to the template differs from the one the client sent".to_string());
                }
            } else {
                rep.probe("faulty-request-accepted");
                // hand it to the back end: C14 judges
                let mut p2 = Produced {
                    name: prod.name.clone(),
                    source: String::new(),
                    tx: tir_back.clone(),
                    stage: prod.stage,
                    args: got.clone(),
                    inputs: BTreeMap::new(),
                    program: prod.program.clone(),
                    txname: prod.txname.clone(),
                };
                p2.args = got;
                back_end_stratum(t, rep, &tir_back, &p2);
            }
        }
    }
    // ---- request history: a second, independent request carrying the *same* envelope (a server
    // sees one template many times) with its own values and its own split between args and env
    if fault_free && !declared.is_empty() && t.chance(1, 2) {
        let mut intended2: BTreeMap<String, Intended> = BTreeMap::new();
        let mut placed2: BTreeMap<String, &'static str> = BTreeMap::new();
        let mut args2 = serde_json::Map::new();
        let mut env2 = serde_json::Map::new();
        let mode = t.draw(3); // 0: mixed, 1: everything under env, 2: no env at all
        for (k, ty) in &declared {
            if t.chance(1, 4) {
                continue;
            }
            let Some(v) = intended_for(t, ty) else { continue };
            let (j, _) = render(t, &v);
            let under_env = match mode {
                1 => true,
                2 => false,
                _ => t.chance(1, 2),
            };
            if under_env {
                env2.insert(k.clone(), j);
                placed2.insert(k.clone(), "env");
            } else {
                args2.insert(k.clone(), j);
                placed2.insert(k.clone(), "args");
            }
            intended2.insert(k.clone(), v);
        }
        let mut doc2 = json!({ "tir": doc["tir"].clone(), "args": J::Object(args2) });
        if mode != 2 {
            doc2["env"] = J::Object(env2);
        }
        rep.fire("second-request-same-envelope");
        let docc = doc2.clone();
        let parsed2 = in_consumer(s2, move || {
            guarded(|| -> Result<(AnyTir, ArgMap), String> {
                let req: tx3_resolver::trp::ResolveParams = serde_json::from_value(docc).map_err(|e| format!("request: {e}"))?;
                tx3_resolver::trp::parse_resolve_request(req).map_err(|e| format!("{e}"))
            })
        });
        rep.evaluations += 1;
        match parsed2 {
            Err(p) => rep.violate("C16", "J3-panic", p.site(), format!("parse_resolve_request panicked on a second request for the same envelope: {}", p.message)),
            Ok(Err(e)) => rep.violate(
                "C16",
                "J2-args",
                "valid-request-rejected/second-request",
                format!("a well-formed second request for `{}`/{} (same envelope, other values) was rejected: {e}", prod.name, prod.txname),
            ),
            Ok(Ok((_, got))) => {
                for (k, v) in &intended2 {
                    match got.get(k) {
                        None => rep.violate(
                            "C16",
                            "J2-args",
                            format!("second-request/supplied-under-{}-but-missing", placed2.get(k).copied().unwrap_or("?")),
                            format!("second request: declared parameter `{k}` was supplied under `{}` but is absent from the argument map", placed2.get(k).copied().unwrap_or("?")),
                        ),
                        Some(a) => {
                            if !same_arg(v, a) {
                                rep.violate("C16", "J2-args", "second-request/wrong-value", format!("second request: parameter `{k}`: template receives {a:?}, client meant {v:?}"));
                            }
                        }
                    }
                }
                for k in got.keys() {
                    if !intended2.contains_key(k) {
                        rep.violate("C16", "J2-args", "second-request/unsupplied-key-present", format!("second request: key `{k}` is in the argument map but this request did not supply it"));
                    }
                }
            }
        }
    }
    rep.digest = d.0;
    rep.sig = crate::tape::mix_str(notes.len() as u64, &outcome.chars().take(10).collect::<String>());
    rep.nontrivial = true;
    rep.events = 1 + notes.len() as u64;
    let doc_s = doc.to_string();
    rep.sample = Some(json!({
        "engine": "wire-sim (resolve request)",
        "program": prod.name,
        "tx": prod.txname,
        "stage": prod.stage,
        "declared": declared.iter().map(|(k, v)| (k.clone(), format!("{v:?}"))).collect::<BTreeMap<_, _>>(),
        "placed": placed,
        "channel": notes,
        "request": if doc_s.chars().count() < 1200 { doc_s } else { format!("{}…", doc_s.chars().take(1200).collect::<String>()) },
        "server_outcome": outcome,
    }));
}
