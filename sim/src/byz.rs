//! Byzantine store answers (C14 only): unsolicited UTxOs, arbitrary contents.

use crate::chain::*;
use crate::world::{PubAnswer, World};

pub fn corrupt(w: &mut World, a: PubAnswer) -> PubAnswer {
    match a {
        PubAnswer::Refs(mut r) => {
            // add refs that do not exist, of odd txid lengths
            let n = 1 + w.tape.draw(3);
            for _ in 0..n {
                let len = *w.tape.pick(&[0usize, 1, 31, 32, 33, 64]);
                let txid = w.tape.bytes(len);
                r.insert((txid, w.tape.draw(4) as u32));
            }
            PubAnswer::Refs(r)
        }
        PubAnswer::Utxos(mut u) => {
            let n = 1 + w.tape.draw(2);
            for _ in 0..n {
                let mode = w.tape.draw(6);
                let target = if !u.is_empty() && w.tape.chance(2, 3) {
                    Some(w.tape.index(u.len()))
                } else {
                    None
                };
                let mut cand = match target {
                    Some(i) => u[i].clone(),
                    None => {
                        let len = *w.tape.pick(&[32usize, 0, 1, 33]);
                        let txid = w.tape.bytes(len);
                        (
                            (txid, w.tape.draw(3) as u32),
                            SimUtxo {
                                address: w.addr_pool.first().cloned().unwrap_or_default(),
                                value: Value::new(),
                                datum: None,
                                script: None,
                            },
                        )
                    }
                };
                match mode {
                    0 => {
                        let len = *w.tape.pick(&[0usize, 1, 28, 29, 57, 64]);
                        cand.1.address = w.tape.bytes(len);
                    }
                    1 => {
                        let plen = *w.tape.pick(&[0usize, 1, 27, 28, 29, 32, 64]);
                        let nlen = *w.tape.pick(&[0usize, 1, 32, 33, 64]);
                        let p = w.tape.bytes(plen);
                        let nm = w.tape.bytes(nlen);
                        let amt = *w.tape.pick(&[1i128, 0, -1, i64::MAX as i128, u64::MAX as i128, i128::MAX, i128::MIN]);
                        cand.1.value.insert(Some((p, nm)), amt);
                    }
                    2 => {
                        let amt = *w.tape.pick(&[0i128, -1, -1_000_000, u64::MAX as i128 + 1, i128::MAX, i128::MIN]);
                        cand.1.value.insert(None, amt);
                    }
                    3 => {
                        use tx3_tir::model::v1beta0::Expression as E;
                        let d = match w.tape.draw(10) {
                            7 | 8 => {
                                // a datum that is itself an open expression: the datum of another input
                                // whose query this very UTxO satisfies (splicing it into the template
                                // re-creates the query it came from)
                                use tx3_tir::model::v1beta0 as tir;
                                let q = tir::InputQuery {
                                    address: E::Address(cand.1.address.clone()),
                                    min_amount: E::None,
                                    r#ref: E::None,
                                    many: false,
                                    collateral: false,
                                };
                                let name = if w.tape.chance(1, 2) { "source".to_string() } else { "in0".to_string() };
                                E::EvalCoerce(Box::new(tir::Coerce::IntoDatum(E::EvalParam(Box::new(tir::Param::ExpectInput(name, q))))))
                            }
                            9 => {
                                // any expression a (hostile or buggy) index may hand back
                                let mut g = crate::gen_tir::TirGen {
                                    t: &mut w.tape,
                                    params: vec![],
                                    queries: Default::default(),
                                    inputs: vec![],
                                    closed: false,
                                };
                                g.expr(2)
                            }
                            0 => E::Number(i128::MAX),
                            1 => E::Number(i128::MIN),
                            2 => E::Bytes(w.tape.bytes(70)),
                            3 => E::List(vec![E::None, E::Bool(true)]),
                            4 => E::UtxoRefs(vec![]),
                            5 => E::String("x".repeat(100)),
                            _ => E::Assets(vec![]),
                        };
                        cand.1.datum = Some(d);
                    }
                    4 => {
                        cand.1.value.clear();
                    }
                    _ => {}
                }
                match target {
                    Some(i) if w.tape.chance(1, 2) => u[i] = cand,
                    _ => u.push(cand),
                }
            }
            PubAnswer::Utxos(u)
        }
    }
}
