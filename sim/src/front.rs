//! The real front end: parse -> analyze -> lower.

use std::collections::BTreeMap;

use tx3_tir::model::v1beta0 as tir;

pub fn lower_all(source: &str) -> Result<BTreeMap<String, tir::Tx>, String> {
    let mut ast = tx3_lang::parsing::parse_string(source).map_err(|e| format!("parse: {e:?}"))?;
    let report = tx3_lang::analyzing::analyze(&mut ast);
    if !report.errors.is_empty() {
        return Err(format!("analyze: {:?}", report.errors));
    }
    let mut out = BTreeMap::new();
    for tx in ast.txs.iter() {
        let t = tx3_lang::lowering::lower(&ast, &tx.name.value).map_err(|e| format!("lower {}: {e:?}", tx.name.value))?;
        out.insert(tx.name.value.clone(), t);
    }
    Ok(out)
}
