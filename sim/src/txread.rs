//! Independent transaction reader: generic CBOR (ciborium::Value, which shares
//! no code with pallas/minicbor) plus our own item-span finder so that body,
//! witness-set and auxiliary-data bytes can be hashed exactly as they sit in
//! the payload.  pallas' typed decoder is used only as "a standard decoder
//! accepts it" (M1).

use ciborium::value::Value as V;

use crate::chain::{ClassKey, RefKey, Value};

#[derive(Clone, Debug, Default)]
pub struct DOutput {
    pub address: Vec<u8>,
    pub value: Value,
    pub coin: i128,
    pub datum: Option<V>,
    pub has_script_ref: bool,
}

#[derive(Clone, Debug, Default)]
pub struct DTx {
    pub inputs: Vec<RefKey>,
    pub outputs: Vec<DOutput>,
    pub fee: i128,
    pub ttl: Option<i128>,
    pub start: Option<i128>,
    pub mint: Option<Vec<(Vec<u8>, Vec<(Vec<u8>, i128)>)>>,
    pub withdrawals: Option<Vec<(Vec<u8>, i128)>>,
    pub donation: Option<i128>,
    pub network_id: Option<i128>,
    pub collateral: Option<Vec<RefKey>>,
    pub reference_inputs: Option<Vec<RefKey>>,
    pub required_signers: Option<Vec<Vec<u8>>>,
    pub certs: Option<usize>,
    pub aux_hash: Option<Vec<u8>>,
    pub sdh: Option<Vec<u8>>,
    pub body_raw: Vec<u8>,
    pub witness_raw: Vec<u8>,
    pub aux_raw: Option<Vec<u8>>,
    pub redeemers_raw: Option<Vec<u8>>,
    pub datums_raw: Option<Vec<u8>>,
    pub redeemers: Vec<(i128, i128, V)>,
    pub metadata: Option<Vec<(i128, V)>>,
    pub body_keys: Vec<i128>,
    /// structural problems: duplicate keys, empty sets/maps, ...
    pub problems: Vec<(String, String)>,
}

fn head(b: &[u8], pos: usize) -> Result<(u8, u64, usize, bool), String> {
    // returns (major, argument, header length, indefinite)
    let ib = *b.get(pos).ok_or("eof")?;
    let major = ib >> 5;
    let ai = ib & 0x1f;
    match ai {
        0..=23 => Ok((major, ai as u64, 1, false)),
        24 => Ok((major, *b.get(pos + 1).ok_or("eof")? as u64, 2, false)),
        25 => {
            let s = b.get(pos + 1..pos + 3).ok_or("eof")?;
            Ok((major, u16::from_be_bytes([s[0], s[1]]) as u64, 3, false))
        }
        26 => {
            let s = b.get(pos + 1..pos + 5).ok_or("eof")?;
            Ok((major, u32::from_be_bytes([s[0], s[1], s[2], s[3]]) as u64, 5, false))
        }
        27 => {
            let s = b.get(pos + 1..pos + 9).ok_or("eof")?;
            let mut a = [0u8; 8];
            a.copy_from_slice(s);
            Ok((major, u64::from_be_bytes(a), 9, false))
        }
        31 => Ok((major, 0, 1, true)),
        _ => Err("reserved additional info".into()),
    }
}

/// length in bytes of the CBOR item starting at `pos`
pub fn item_len(b: &[u8], pos: usize) -> Result<usize, String> {
    let (major, arg, hl, indef) = head(b, pos)?;
    let mut p = pos + hl;
    match major {
        0 | 1 => {}
        2 | 3 => {
            if indef {
                loop {
                    if *b.get(p).ok_or("eof")? == 0xff {
                        p += 1;
                        break;
                    }
                    p += item_len(b, p)?;
                }
            } else {
                p += arg as usize;
                if p > b.len() {
                    return Err("eof".into());
                }
            }
        }
        4 | 5 => {
            let per = if major == 4 { 1 } else { 2 };
            if indef {
                loop {
                    if *b.get(p).ok_or("eof")? == 0xff {
                        p += 1;
                        break;
                    }
                    for _ in 0..per {
                        p += item_len(b, p)?;
                    }
                }
            } else {
                for _ in 0..(arg as usize * per) {
                    p += item_len(b, p)?;
                }
            }
        }
        6 => {
            p += item_len(b, p)?;
        }
        7 => {
            if indef {
                return Err("unexpected break".into());
            }
        }
        _ => unreachable!(),
    }
    Ok(p - pos)
}

/// spans of the entries of a definite/indefinite map at pos: Vec<(key span, value span)>
fn map_entries(b: &[u8], pos: usize) -> Result<Vec<((usize, usize), (usize, usize))>, String> {
    let (major, arg, hl, indef) = head(b, pos)?;
    if major != 5 {
        return Err("not a map".into());
    }
    let mut p = pos + hl;
    let mut out = vec![];
    let mut n = 0;
    loop {
        if indef {
            if *b.get(p).ok_or("eof")? == 0xff {
                break;
            }
        } else if n == arg {
            break;
        }
        let kl = item_len(b, p)?;
        let vl = item_len(b, p + kl)?;
        out.push(((p, kl), (p + kl, vl)));
        p += kl + vl;
        n += 1;
    }
    Ok(out)
}

fn parse(b: &[u8]) -> Result<V, String> {
    ciborium::from_reader::<V, _>(b).map_err(|e| format!("cbor: {e}"))
}

pub fn as_int(v: &V) -> Option<i128> {
    match v {
        V::Integer(i) => Some(i128::from(*i)),
        V::Tag(2, inner) => inner.as_bytes().map(|b| b.iter().fold(0i128, |a, x| (a << 8) | *x as i128)),
        V::Tag(3, inner) => inner.as_bytes().map(|b| -1 - b.iter().fold(0i128, |a, x| (a << 8) | *x as i128)),
        _ => None,
    }
}

fn untag_set<'a>(v: &'a V) -> (&'a V, bool) {
    match v {
        V::Tag(258, inner) => (inner, true),
        other => (other, false),
    }
}

fn refs_of(v: &V, what: &str, problems: &mut Vec<(String, String)>) -> Result<Vec<RefKey>, String> {
    let (v, _) = untag_set(v);
    let arr = v.as_array().ok_or(format!("{what}: not an array"))?;
    let mut out = vec![];
    for x in arr {
        let pair = x.as_array().ok_or(format!("{what}: entry not an array"))?;
        if pair.len() != 2 {
            return Err(format!("{what}: entry arity"));
        }
        let txid = pair[0].as_bytes().ok_or(format!("{what}: txid"))?.clone();
        let ix = as_int(&pair[1]).ok_or(format!("{what}: index"))?;
        out.push((txid, ix as u32));
    }
    let mut sorted = out.clone();
    sorted.sort();
    sorted.dedup();
    if sorted.len() != out.len() {
        problems.push((what.to_string(), "duplicate entry".into()));
    }
    Ok(out)
}

fn multiasset(
    v: &V,
    what: &str,
    problems: &mut Vec<(String, String)>,
) -> Result<Vec<(Vec<u8>, Vec<(Vec<u8>, i128)>)>, String> {
    let m = v.as_map().ok_or(format!("{what}: not a map"))?;
    let mut out = vec![];
    if m.is_empty() {
        problems.push((what.to_string(), "empty multiasset map".into()));
    }
    for (k, inner) in m {
        let pol = k.as_bytes().ok_or(format!("{what}: policy"))?.clone();
        if pol.len() != 28 {
            problems.push((what.to_string(), format!("policy id of {} bytes", pol.len())));
        }
        let im = inner.as_map().ok_or(format!("{what}: inner"))?;
        if im.is_empty() {
            problems.push((what.to_string(), "empty inner asset map".into()));
        }
        let mut assets = vec![];
        for (n, a) in im {
            let name = n.as_bytes().ok_or(format!("{what}: name"))?.clone();
            let amt = as_int(a).ok_or(format!("{what}: amount"))?;
            if amt == 0 {
                problems.push((what.to_string(), "zero amount entry".into()));
            }
            if name.len() > 32 {
                problems.push((what.to_string(), format!("asset name of {} bytes", name.len())));
            }
            if assets.iter().any(|(x, _): &(Vec<u8>, i128)| *x == name) {
                problems.push((what.to_string(), "duplicate asset name".into()));
            }
            assets.push((name, amt));
        }
        if out.iter().any(|(x, _): &(Vec<u8>, Vec<(Vec<u8>, i128)>)| *x == pol) {
            problems.push((what.to_string(), "duplicate policy".into()));
        }
        out.push((pol, assets));
    }
    Ok(out)
}

fn output_of(v: &V, ix: usize, problems: &mut Vec<(String, String)>) -> Result<DOutput, String> {
    let what = format!("outputs[{ix}]");
    let mut o = DOutput::default();
    let (addr, val, datum, script) = match v {
        V::Map(m) => {
            let get = |k: i128| m.iter().find(|(kk, _)| as_int(kk) == Some(k)).map(|(_, v)| v);
            (
                get(0).ok_or(format!("{what}: no address"))?,
                get(1).ok_or(format!("{what}: no value"))?,
                get(2),
                get(3),
            )
        }
        V::Array(a) if a.len() >= 2 => (&a[0], &a[1], a.get(2), None),
        _ => return Err(format!("{what}: shape")),
    };
    o.address = addr.as_bytes().ok_or(format!("{what}: address bytes"))?.clone();
    match val {
        V::Array(a) if a.len() == 2 => {
            o.coin = as_int(&a[0]).ok_or(format!("{what}: coin"))?;
            let ma = multiasset(&a[1], &format!("{what}.value"), problems)?;
            for (p, assets) in ma {
                for (n, amt) in assets {
                    if amt < 0 {
                        problems.push((what.clone(), "negative asset amount".into()));
                    }
                    *o.value.entry(Some((p.clone(), n))).or_insert(0) += amt;
                }
            }
        }
        other => {
            o.coin = as_int(other).ok_or(format!("{what}: coin"))?;
        }
    }
    if o.coin < 0 {
        problems.push((what.clone(), "negative coin".into()));
    }
    if o.coin != 0 {
        o.value.insert(None, o.coin);
    }
    if let Some(d) = datum {
        // [1, #6.24(bytes)] inline datum
        if let Some(a) = d.as_array() {
            if a.len() == 2 && as_int(&a[0]) == Some(1) {
                if let V::Tag(24, inner) = &a[1] {
                    if let Some(b) = inner.as_bytes() {
                        // a datum our generic reader cannot represent (e.g. a bignum beyond 128 bits) is kept
                        // as an opaque marker: the echo clauses then see a value that is not the intended one
                        o.datum = Some(match parse(b) {
                            Ok(v) => v,
                            Err(e) => V::Text(format!("<datum not representable: {e}>")),
                        });
                    }
                }
            } else {
                o.datum = Some(d.clone());
            }
        }
    }
    o.has_script_ref = script.is_some();
    Ok(o)
}

pub fn decode_tx(payload: &[u8]) -> Result<DTx, String> {
    let mut d = DTx::default();
    let (major, arg, hl, indef) = head(payload, 0)?;
    if major != 4 || indef || arg != 4 {
        return Err("tx is not a 4-element array".into());
    }
    let body_at = hl;
    let body_len = item_len(payload, body_at)?;
    let wit_at = body_at + body_len;
    let wit_len = item_len(payload, wit_at)?;
    let valid_at = wit_at + wit_len;
    let valid_len = item_len(payload, valid_at)?;
    let aux_at = valid_at + valid_len;
    let aux_len = item_len(payload, aux_at)?;
    if aux_at + aux_len != payload.len() {
        return Err("trailing bytes after transaction".into());
    }
    d.body_raw = payload[body_at..body_at + body_len].to_vec();
    d.witness_raw = payload[wit_at..wit_at + wit_len].to_vec();
    let aux = &payload[aux_at..aux_at + aux_len];
    d.aux_raw = if aux == [0xf6] { None } else { Some(aux.to_vec()) };

    // ---- body
    let body = parse(&d.body_raw)?;
    let bm = body.as_map().ok_or("body is not a map")?;
    for (k, _) in bm {
        let key = as_int(k).ok_or("body key not an int")?;
        if d.body_keys.contains(&key) {
            d.problems.push(("body".into(), format!("duplicate key {key}")));
        }
        d.body_keys.push(key);
    }
    let get = |k: i128| bm.iter().find(|(kk, _)| as_int(kk) == Some(k)).map(|(_, v)| v);
    let mut problems = vec![];
    d.inputs = refs_of(get(0).ok_or("body: no inputs")?, "inputs", &mut problems)?;
    let outs = get(1).ok_or("body: no outputs")?.as_array().ok_or("outputs: not an array")?;
    for (i, o) in outs.iter().enumerate() {
        d.outputs.push(output_of(o, i, &mut problems)?);
    }
    d.fee = as_int(get(2).ok_or("body: no fee")?).ok_or("fee")?;
    d.ttl = get(3).map(|v| as_int(v).ok_or("ttl")).transpose()?;
    if let Some(c) = get(4) {
        let (c, _) = untag_set(c);
        let n = c.as_array().ok_or("certs")?.len();
        if n == 0 {
            problems.push(("certificates".into(), "empty set".into()));
        }
        d.certs = Some(n);
    }
    if let Some(wd) = get(5) {
        let m = wd.as_map().ok_or("withdrawals")?;
        if m.is_empty() {
            problems.push(("withdrawals".into(), "empty map".into()));
        }
        let mut out: Vec<(Vec<u8>, i128)> = vec![];
        for (k, v) in m {
            let acct = k.as_bytes().ok_or("withdrawal account")?.clone();
            if out.iter().any(|(a, _)| *a == acct) {
                problems.push(("withdrawals".into(), "duplicate account".into()));
            }
            out.push((acct, as_int(v).ok_or("withdrawal amount")?));
        }
        d.withdrawals = Some(out);
    }
    d.aux_hash = get(7).map(|v| v.as_bytes().cloned().ok_or("aux hash")).transpose()?;
    d.start = get(8).map(|v| as_int(v).ok_or("start")).transpose()?;
    if let Some(m) = get(9) {
        d.mint = Some(multiasset(m, "mint", &mut problems)?);
    }
    d.sdh = get(11).map(|v| v.as_bytes().cloned().ok_or("script data hash")).transpose()?;
    if let Some(c) = get(13) {
        let r = refs_of(c, "collateral", &mut problems)?;
        if r.is_empty() {
            problems.push(("collateral".into(), "empty set".into()));
        }
        d.collateral = Some(r);
    }
    if let Some(s) = get(14) {
        let (s, _) = untag_set(s);
        let arr = s.as_array().ok_or("required signers")?;
        if arr.is_empty() {
            problems.push(("required_signers".into(), "empty set".into()));
        }
        let mut out: Vec<Vec<u8>> = vec![];
        for x in arr {
            let h = x.as_bytes().ok_or("signer hash")?.clone();
            if h.len() != 28 {
                problems.push(("required_signers".into(), format!("key hash of {} bytes", h.len())));
            }
            if out.contains(&h) {
                problems.push(("required_signers".into(), "duplicate entry".into()));
            }
            out.push(h);
        }
        d.required_signers = Some(out);
    }
    d.network_id = get(15).map(|v| as_int(v).ok_or("network id")).transpose()?;
    if let Some(r) = get(18) {
        let refs = refs_of(r, "reference_inputs", &mut problems)?;
        if refs.is_empty() {
            problems.push(("reference_inputs".into(), "empty set".into()));
        }
        d.reference_inputs = Some(refs);
    }
    d.donation = get(22).map(|v| as_int(v).ok_or("donation")).transpose()?;
    if let Some(x) = d.donation {
        if x <= 0 {
            problems.push(("donation".into(), "not positive".into()));
        }
    }

    // ---- witness set (raw spans of redeemers / datums for the script data hash)
    for ((kp, kl), (vp, vl)) in map_entries(&d.witness_raw, 0)? {
        let key = as_int(&parse(&d.witness_raw[kp..kp + kl])?).ok_or("witness key")?;
        let raw = &d.witness_raw[vp..vp + vl];
        match key {
            5 => {
                d.redeemers_raw = Some(raw.to_vec());
                match parse(raw)? {
                    V::Map(m) => {
                        if m.is_empty() {
                            problems.push(("redeemers".into(), "empty map".into()));
                        }
                        for (k, v) in m {
                            let ka = k.as_array().ok_or("redeemer key")?;
                            let va = v.as_array().ok_or("redeemer value")?;
                            let tag = as_int(&ka[0]).ok_or("redeemer tag")?;
                            let ix = as_int(&ka[1]).ok_or("redeemer index")?;
                            if d.redeemers.iter().any(|(t, i, _)| *t == tag && *i == ix) {
                                problems.push(("redeemers".into(), "duplicate key".into()));
                            }
                            d.redeemers.push((tag, ix, va[0].clone()));
                        }
                    }
                    V::Array(a) => {
                        if a.is_empty() {
                            problems.push(("redeemers".into(), "empty list".into()));
                        }
                        for r in a {
                            let ra = r.as_array().ok_or("redeemer")?;
                            d.redeemers.push((
                                as_int(&ra[0]).ok_or("tag")?,
                                as_int(&ra[1]).ok_or("index")?,
                                ra[2].clone(),
                            ));
                        }
                    }
                    _ => return Err("redeemers shape".into()),
                }
            }
            4 => d.datums_raw = Some(raw.to_vec()),
            0 | 1 | 2 | 3 | 6 | 7 => {
                let v = parse(raw)?;
                let (inner, _) = untag_set(&v);
                if inner.as_array().map(|a| a.is_empty()).unwrap_or(false) {
                    problems.push((format!("witness[{key}]"), "empty set".into()));
                }
            }
            _ => {}
        }
    }

    // ---- auxiliary data
    if let Some(raw) = &d.aux_raw {
        let v = parse(raw)?;
        let md = match &v {
            V::Tag(259, inner) => inner
                .as_map()
                .and_then(|m| m.iter().find(|(k, _)| as_int(k) == Some(0)).map(|(_, v)| v.clone())),
            V::Map(_) => Some(v.clone()),
            V::Array(a) => a.first().cloned(),
            _ => None,
        };
        if let Some(V::Map(m)) = md {
            let mut out = vec![];
            for (k, v) in m {
                let key = as_int(&k).ok_or("metadata key")?;
                if out.iter().any(|(kk, _): &(i128, V)| *kk == key) {
                    problems.push(("metadata".into(), "duplicate label".into()));
                }
                out.push((key, v));
            }
            d.metadata = Some(out);
        }
    }
    d.problems.extend(problems);
    Ok(d)
}

pub fn blake2b224(data: &[u8]) -> Vec<u8> {
    tx3_cardano::pallas::crypto::hash::Hasher::<224>::hash(data).to_vec()
}

pub fn blake2b256(data: &[u8]) -> Vec<u8> {
    tx3_cardano::pallas::crypto::hash::Hasher::<256>::hash(data).to_vec()
}

pub fn pallas_accepts(payload: &[u8]) -> Result<(), String> {
    use tx3_cardano::pallas::codec::minicbor;
    use tx3_cardano::pallas::ledger::primitives::conway;
    let _tx: conway::Tx = minicbor::decode(payload).map_err(|e| format!("{e}"))?;
    Ok(())
}

// ---- script data hash, written from the ledger spec

fn enc_uint(major: u8, v: u64, out: &mut Vec<u8>) {
    let m = major << 5;
    if v < 24 {
        out.push(m | v as u8);
    } else if v <= 0xff {
        out.push(m | 24);
        out.push(v as u8);
    } else if v <= 0xffff {
        out.push(m | 25);
        out.extend((v as u16).to_be_bytes());
    } else if v <= 0xffff_ffff {
        out.push(m | 26);
        out.extend((v as u32).to_be_bytes());
    } else {
        out.push(m | 27);
        out.extend(v.to_be_bytes());
    }
}

fn enc_int(v: i64, out: &mut Vec<u8>) {
    if v >= 0 {
        enc_uint(0, v as u64, out)
    } else {
        enc_uint(1, (-1 - v) as u64, out)
    }
}

pub fn language_view(version: u8, cost_model: &[i64]) -> Vec<u8> {
    let mut out = vec![0xa1];
    if version == 0 {
        let mut inner = vec![0x9f];
        for c in cost_model {
            enc_int(*c, &mut inner);
        }
        inner.push(0xff);
        out.extend([0x41, 0x00]);
        enc_uint(2, inner.len() as u64, &mut out);
        out.extend(inner);
    } else {
        enc_uint(0, version as u64, &mut out);
        enc_uint(4, cost_model.len() as u64, &mut out);
        for c in cost_model {
            enc_int(*c, &mut out);
        }
    }
    out
}

pub fn script_data_hash(d: &DTx, version: u8, cost_model: &[i64]) -> Vec<u8> {
    let mut buf = vec![];
    match &d.redeemers_raw {
        Some(r) => buf.extend(r),
        None => buf.push(0xa0),
    }
    if let Some(x) = &d.datums_raw {
        buf.extend(x);
    }
    if d.redeemers_raw.is_some() {
        buf.extend(language_view(version, cost_model));
    } else {
        buf.push(0xa0);
    }
    blake2b256(&buf)
}

pub fn value_of_output(o: &DOutput) -> Value {
    let mut v = o.value.clone();
    v.retain(|_, x| *x != 0);
    v
}

pub fn mint_value(d: &DTx) -> Value {
    let mut v = Value::new();
    if let Some(m) = &d.mint {
        for (p, assets) in m {
            for (n, amt) in assets {
                let k: ClassKey = Some((p.clone(), n.clone()));
                *v.entry(k).or_insert(0) += *amt;
            }
        }
    }
    v.retain(|_, x| *x != 0);
    v
}
