//! Supervisor / worker processes, crash pinning, shrinking, replay files,
//! known findings, evidence.

use std::collections::{BTreeMap, BTreeSet};
use std::io::{BufRead, BufReader, Write};
use std::process::{Command, Stdio};
use std::time::Instant;

use serde_json::json;

use crate::core::*;
use crate::tape::{mix, mix_str, Tape};

pub const DEFAULT_SEED: u64 = 20260927;

pub fn verif_seed() -> u64 {
    std::env::var("VERIF_SEED")
        .ok()
        .and_then(|s| s.trim().parse::<u64>().ok())
        .unwrap_or(DEFAULT_SEED)
}

pub fn verif_dir() -> String {
    std::env::var("VERIF_DIR").unwrap_or_else(|_| "/verif".to_string())
}

pub fn world_seed(seed: u64, prop: &str, n: u64) -> u64 {
    mix(mix_str(seed, prop), n)
}

/// the library prints `dbg!` output to stderr; keep the supervisor's own stderr clean while it
/// replays worlds in-process (shrinking, replay)
fn quiet<T>(f: impl FnOnce() -> T) -> T {
    unsafe {
        let saved = libc::dup(2);
        let devnull = libc::open(b"/dev/null\0".as_ptr() as *const libc::c_char, libc::O_WRONLY);
        if saved >= 0 && devnull >= 0 {
            libc::dup2(devnull, 2);
        }
        let r = f();
        if saved >= 0 {
            libc::dup2(saved, 2);
            libc::close(saved);
        }
        if devnull >= 0 {
            libc::close(devnull);
        }
        r
    }
}

pub fn run_one_quiet(prop: &str, tier: Tier, n: u64, tape: Tape) -> WorldReport {
    quiet(|| run_one(prop, tier, n, tape))
}

pub fn run_one(prop: &str, tier: Tier, n: u64, tape: Tape) -> WorldReport {
    let mut rep = crate::props::run_world(prop, tier, n, tape);
    rep.violations.retain(|v| v.property == prop);
    rep
}

// ------------------------------------------------------------------ worker

pub fn worker(prop: &str, tier: Tier, seed: u64, from: u64, to: u64, per_world: bool) {
    let out = std::io::stdout();
    let mut fired: BTreeMap<String, u64> = BTreeMap::new();
    let mut probes: BTreeMap<String, u64> = BTreeMap::new();
    let mut digests: BTreeSet<u64> = BTreeSet::new();
    let mut sigs: BTreeSet<u64> = BTreeSet::new();
    let (mut worlds, mut evals, mut ticks, mut events, mut stub_calls, mut nontrivial) = (0u64, 0u64, 0u64, 0u64, 0u64, 0u64);
    let mut samples: Vec<serde_json::Value> = vec![];
    // watchdog: a world that does not finish within 60 s of real time is a hang inside the code under test
    let current = std::sync::Arc::new(std::sync::atomic::AtomicU64::new(u64::MAX));
    let beat = std::sync::Arc::new(std::sync::atomic::AtomicU64::new(0));
    {
        let current = current.clone();
        let beat = beat.clone();
        std::thread::spawn(move || {
            let mut last = (u64::MAX, 0u64);
            let mut stuck_for = 0;
            loop {
                std::thread::sleep(std::time::Duration::from_secs(5));
                let now = (
                    current.load(std::sync::atomic::Ordering::Relaxed),
                    beat.load(std::sync::atomic::Ordering::Relaxed),
                );
                if now == last && now.0 != u64::MAX {
                    stuck_for += 5;
                    if stuck_for >= 60 {
                        println!("{}", json!({"hang": now.0}));
                        std::process::exit(3);
                    }
                } else {
                    stuck_for = 0;
                    last = now;
                }
            }
        });
    }
    for n in from..to {
        current.store(n, std::sync::atomic::Ordering::Relaxed);
        beat.fetch_add(1, std::sync::atomic::Ordering::Relaxed);
        {
            let mut o = out.lock();
            let _ = writeln!(o, "S {n}");
            let _ = o.flush();
        }
        let tape = Tape::search(world_seed(seed, prop, n));
        let rep = run_one(prop, tier, n, tape);
        worlds += 1;
        evals += rep.evaluations.max(1);
        ticks += rep.ticks;
        events += rep.events;
        stub_calls += rep.stub_calls;
        for (k, v) in &rep.fired {
            *fired.entry(k.clone()).or_insert(0) += v;
        }
        for (k, v) in &rep.probes {
            *probes.entry(k.clone()).or_insert(0) += v;
        }
        if rep.nontrivial {
            nontrivial += 1;
            digests.insert(rep.digest);
        }
        sigs.insert(rep.sig);
        // written-out cases for the evidence file: spread over the range, preferring worlds that got as far as
        // emitting a transaction (their payload and hash can be cross-checked outside this program)
        if samples.len() < 3 && rep.nontrivial {
            if let Some(s) = &rep.sample {
                let has_tx = s.to_string().contains("\"payload\"");
                if (has_tx && samples.len() < 2 && (n - from) % 5 == 2) || (n - from) % 97 == 13 {
                    samples.push(json!({"world": n, "case": s}));
                }
            }
        }
        if per_world {
            println!("D {} {} {}", n, rep.digest, rep.violations.len());
        }
        if rep.harness_error.is_some() || !rep.violations.is_empty() {
            let mut slim = rep.clone();
            slim.sample = None;
            println!("V {}", serde_json::to_string(&slim).unwrap());
        }
    }
    current.store(u64::MAX, std::sync::atomic::Ordering::Relaxed);
    println!(
        "Z {}",
        json!({
            "worlds": worlds, "evaluations": evals, "ticks": ticks, "events": events, "stub_calls": stub_calls,
            "nontrivial": nontrivial, "fired": fired, "probes": probes,
            "digests": digests.iter().collect::<Vec<_>>(), "sigs": sigs.iter().collect::<Vec<_>>(),
            "samples": samples,
        })
    );
}

// ------------------------------------------------------------------ supervisor

#[derive(Default)]
pub struct Batch {
    pub worlds: u64,
    pub evaluations: u64,
    pub ticks: u64,
    pub events: u64,
    pub stub_calls: u64,
    pub nontrivial: u64,
    pub fired: BTreeMap<String, u64>,
    pub probes: BTreeMap<String, u64>,
    pub digests: BTreeSet<u64>,
    pub sigs: BTreeSet<u64>,
    pub samples: Vec<serde_json::Value>,
    pub failing: Vec<WorldReport>,
    pub per_world: BTreeMap<u64, (u64, u64)>,
    pub crashed: Vec<(u64, String)>,
    pub harness_errors: Vec<String>,
}

fn self_exe() -> std::path::PathBuf {
    std::env::current_exe().expect("current_exe")
}

struct Child {
    from: u64,
    to: u64,
    child: std::process::Child,
}

fn spawn_worker(prop: &str, tier: Tier, seed: u64, from: u64, to: u64, per_world: bool) -> Child {
    let mut c = Command::new(self_exe());
    c.arg("worker")
        .arg("--property")
        .arg(prop)
        .arg("--tier")
        .arg(tier.name())
        .arg("--seed")
        .arg(seed.to_string())
        .arg("--from")
        .arg(from.to_string())
        .arg("--to")
        .arg(to.to_string());
    if per_world {
        c.arg("--digests");
    }
    let child = c
        .stdout(Stdio::piped())
        .stderr(Stdio::null())
        .stdin(Stdio::null())
        .spawn()
        .expect("spawn worker");
    Child { from, to, child }
}

fn absorb(batch: &mut Batch, z: &serde_json::Value) {
    let g = |k: &str| z.get(k).and_then(|v| v.as_u64()).unwrap_or(0);
    batch.worlds += g("worlds");
    batch.evaluations += g("evaluations");
    batch.ticks += g("ticks");
    batch.events += g("events");
    batch.stub_calls += g("stub_calls");
    batch.nontrivial += g("nontrivial");
    for key in ["fired", "probes"] {
        if let Some(m) = z.get(key).and_then(|v| v.as_object()) {
            let tgt = if key == "fired" { &mut batch.fired } else { &mut batch.probes };
            for (k, v) in m {
                *tgt.entry(k.clone()).or_insert(0) += v.as_u64().unwrap_or(0);
            }
        }
    }
    for (key, tgt) in [("digests", &mut batch.digests), ("sigs", &mut batch.sigs)] {
        if let Some(a) = z.get(key).and_then(|v| v.as_array()) {
            for x in a {
                if let Some(u) = x.as_u64() {
                    tgt.insert(u);
                }
            }
        }
    }
    if let Some(a) = z.get("samples").and_then(|v| v.as_array()) {
        for s in a {
            if batch.samples.len() < 5 {
                batch.samples.push(s.clone());
            }
        }
    }
}

/// run worlds [0, total) over `workers` processes
pub fn run_batch(prop: &str, tier: Tier, seed: u64, total: u64, workers: u64, per_world: bool) -> Batch {
    let mut batch = Batch::default();
    let workers = workers.max(1).min(total.max(1));
    let chunk = (total + workers - 1) / workers;
    let mut kids = vec![];
    let mut a = 0;
    while a < total {
        let b = (a + chunk).min(total);
        kids.push(spawn_worker(prop, tier, seed, a, b, per_world));
        a = b;
    }
    // read all children concurrently (threads), then merge in range order
    let handles: Vec<_> = kids
        .into_iter()
        .map(|mut k| {
            std::thread::spawn(move || {
                let so = k.child.stdout.take().unwrap();
                let mut lines = vec![];
                for l in BufReader::new(so).lines().map_while(Result::ok) {
                    // keep memory bounded: only the last S line matters
                    if l.starts_with("S ") {
                        if let Some(last) = lines.last_mut() {
                            let last: &mut String = last;
                            if last.starts_with("S ") {
                                *last = l;
                                continue;
                            }
                        }
                    }
                    lines.push(l);
                }
                let status = k.child.wait().expect("wait worker");
                (k.from, k.to, lines, status)
            })
        })
        .collect();
    for h in handles {
        let (from, to, lines, status) = h.join().expect("reader thread");
        let mut last_started: Option<u64> = None;
        let mut finished = false;
        for l in &lines {
            if let Some(r) = l.strip_prefix("S ") {
                last_started = r.trim().parse().ok();
            } else if let Some(r) = l.strip_prefix("D ") {
                let p: Vec<&str> = r.split_whitespace().collect();
                if p.len() == 3 {
                    batch
                        .per_world
                        .insert(p[0].parse().unwrap_or(0), (p[1].parse().unwrap_or(0), p[2].parse().unwrap_or(0)));
                }
            } else if let Some(r) = l.strip_prefix("V ") {
                match serde_json::from_str::<WorldReport>(r) {
                    Ok(rep) => {
                        if let Some(e) = &rep.harness_error {
                            batch.harness_errors.push(format!("world {}: {}", rep.world, e));
                        }
                        if !rep.violations.is_empty() {
                            batch.failing.push(rep);
                        }
                    }
                    Err(e) => batch.harness_errors.push(format!("unparsable worker line: {e}")),
                }
            } else if let Some(r) = l.strip_prefix("Z ") {
                if let Ok(z) = serde_json::from_str::<serde_json::Value>(r) {
                    absorb(&mut batch, &z);
                    finished = true;
                }
            } else if l.starts_with('{') {
                if let Ok(v) = serde_json::from_str::<serde_json::Value>(l) {
                    if let Some(n) = v.get("hang").and_then(|x| x.as_u64()) {
                        batch.crashed.push((n, "no progress for 60 s of real time (hang)".into()));
                    }
                }
            }
        }
        if !finished {
            let why = format!("worker for worlds {from}..{to} ended with {status}");
            if !batch.crashed.iter().any(|(n, _)| Some(*n) == last_started) {
                batch.crashed.push((last_started.unwrap_or(from), why));
            }
            // the rest of the range after the crashing world still has to run
            if let Some(n) = last_started {
                if n + 1 < to {
                    let more = run_range(prop, tier, seed, n + 1, to, per_world, 2);
                    merge(&mut batch, more);
                }
            }
        }
    }
    batch
}

fn run_range(prop: &str, tier: Tier, seed: u64, from: u64, to: u64, per_world: bool, budget: u32) -> Batch {
    // single worker over [from, to), recursing past crashes (a bounded number of times: once a
    // range has produced a few dead workers the verdict is settled and the rest adds only time)
    let mut batch = Batch::default();
    let mut k = spawn_worker(prop, tier, seed, from, to, per_world);
    let so = k.child.stdout.take().unwrap();
    let mut last_started = None;
    let mut finished = false;
    for l in BufReader::new(so).lines().map_while(Result::ok) {
        if let Some(r) = l.strip_prefix("S ") {
            last_started = r.trim().parse::<u64>().ok();
        } else if let Some(r) = l.strip_prefix("V ") {
            if let Ok(rep) = serde_json::from_str::<WorldReport>(r) {
                if let Some(e) = &rep.harness_error {
                    batch.harness_errors.push(format!("world {}: {}", rep.world, e));
                }
                if !rep.violations.is_empty() {
                    batch.failing.push(rep);
                }
            }
        } else if let Some(r) = l.strip_prefix("D ") {
            let p: Vec<&str> = r.split_whitespace().collect();
            if p.len() == 3 {
                batch
                    .per_world
                    .insert(p[0].parse().unwrap_or(0), (p[1].parse().unwrap_or(0), p[2].parse().unwrap_or(0)));
            }
        } else if let Some(r) = l.strip_prefix("Z ") {
            if let Ok(z) = serde_json::from_str::<serde_json::Value>(r) {
                absorb(&mut batch, &z);
                finished = true;
            }
        }
    }
    let status = k.child.wait().expect("wait");
    if !finished {
        let n = last_started.unwrap_or(from);
        batch.crashed.push((n, format!("worker ended with {status}")));
        if n + 1 < to && budget > 0 {
            let more = run_range(prop, tier, seed, n + 1, to, per_world, budget - 1);
            merge(&mut batch, more);
        }
    }
    batch
}

fn merge(a: &mut Batch, b: Batch) {
    a.worlds += b.worlds;
    a.evaluations += b.evaluations;
    a.ticks += b.ticks;
    a.events += b.events;
    a.stub_calls += b.stub_calls;
    a.nontrivial += b.nontrivial;
    for (k, v) in b.fired {
        *a.fired.entry(k).or_insert(0) += v;
    }
    for (k, v) in b.probes {
        *a.probes.entry(k).or_insert(0) += v;
    }
    a.digests.extend(b.digests);
    a.sigs.extend(b.sigs);
    a.failing.extend(b.failing);
    a.per_world.extend(b.per_world);
    a.crashed.extend(b.crashed);
    a.harness_errors.extend(b.harness_errors);
    for s in b.samples {
        if a.samples.len() < 5 {
            a.samples.push(s);
        }
    }
}

// ------------------------------------------------------------------ shrinking

fn fails_same(prop: &str, tier: Tier, n: u64, data: &[u64], class: &str, shape: &str) -> Option<WorldReport> {
    let rep = run_one_quiet(prop, tier, n, Tape::replay(data.to_vec()));
    if rep.violations.iter().any(|v| v.class == class && v.shape == shape) {
        Some(rep)
    } else {
        None
    }
}

pub fn shrink(prop: &str, tier: Tier, n: u64, tape: Vec<u64>, class: &str, shape: &str, budget_s: f64) -> (Vec<u64>, WorldReport, u64) {
    let start = Instant::now();
    let mut best = tape;
    let mut best_rep = match fails_same(prop, tier, n, &best, class, shape) {
        Some(r) => r,
        None => {
            // a difference that does not come back from its own tape is not a replayable violation: the
            // code under test behaves differently from run to run for a reason no seam of the simulator
            // controls (threads scheduled by the kernel, real time read around the interposed clock, ...).
            // That is itself worth a loud stop - but it is a harness error (exit 2), not a verdict.
            eprintln!(
                "HARNESS ERROR: {prop} {class} [{shape}] in world {n} does not reproduce from its own tape: the code under test is nondeterministic beyond the simulator's seams (hash entropy, clock, file-system calls, directory order, store, schedule); not reported as a violation because it cannot be replayed"
            );
            std::process::exit(2);
        }
    };
    let mut tries = 0u64;
    let over = |s: &Instant| s.elapsed().as_secs_f64() > budget_s;
    // trailing zeros are free
    let trim = |v: &mut Vec<u64>| {
        while v.last() == Some(&0) {
            v.pop();
        }
    };
    trim(&mut best);
    let mut progress = true;
    while progress && !over(&start) {
        progress = false;
        // 1. cut the tail (binary search on prefix length)
        let (mut lo, mut hi) = (0usize, best.len());
        while lo < hi && !over(&start) {
            let mid = (lo + hi) / 2;
            tries += 1;
            if let Some(r) = fails_same(prop, tier, n, &best[..mid], class, shape) {
                best_rep = r;
                hi = mid;
            } else {
                lo = mid + 1;
            }
        }
        if hi < best.len() {
            best.truncate(hi);
            trim(&mut best);
            progress = true;
        }
        // 2. zero blocks, then delete blocks
        let mut size = (best.len() / 2).max(1);
        while size >= 1 && !over(&start) {
            let mut i = 0;
            while i < best.len() && !over(&start) {
                let end = (i + size).min(best.len());
                if best[i..end].iter().any(|x| *x != 0) {
                    let mut cand = best.clone();
                    for x in &mut cand[i..end] {
                        *x = 0;
                    }
                    tries += 1;
                    if let Some(r) = fails_same(prop, tier, n, &cand, class, shape) {
                        best = cand;
                        best_rep = r;
                        progress = true;
                    }
                }
                if size <= 8 && end <= best.len() {
                    let mut cand = best.clone();
                    cand.drain(i..end);
                    tries += 1;
                    if let Some(r) = fails_same(prop, tier, n, &cand, class, shape) {
                        best = cand;
                        best_rep = r;
                        progress = true;
                        continue;
                    }
                }
                i += size;
            }
            if size == 1 {
                break;
            }
            size /= 2;
        }
        // 3. halve / decrement single values
        for i in 0..best.len() {
            if over(&start) {
                break;
            }
            let mut v = best[i];
            while v > 0 && !over(&start) {
                let cand_v = if v > 3 { v / 2 } else { v - 1 };
                let mut cand = best.clone();
                cand[i] = cand_v;
                tries += 1;
                if let Some(r) = fails_same(prop, tier, n, &cand, class, shape) {
                    best = cand;
                    best_rep = r;
                    v = cand_v;
                    progress = true;
                } else {
                    break;
                }
            }
        }
        trim(&mut best);
    }
    (best, best_rep, tries)
}

// ------------------------------------------------------------------ replay files

fn sanitize(s: &str) -> String {
    s.chars()
        .map(|c| if c.is_ascii_alphanumeric() || c == '-' { c } else { '_' })
        .take(60)
        .collect()
}

pub fn write_replay(dir: &str, prop: &str, seed: u64, n: u64, v: &Violation, tape: &[u64], rep: &WorldReport, prefix: &str) -> String {
    write_replay_hist(dir, prop, seed, n, v, tape, rep, prefix, None)
}

/// `process_history = Some(from)`: the violation needs the state the worker process had built up
/// by running worlds from..n before world n (a process-wide cache, a static); the replay then runs
/// that prefix in one fresh process before the world itself.
#[allow(clippy::too_many_arguments)]
pub fn write_replay_hist(dir: &str, prop: &str, seed: u64, n: u64, v: &Violation, tape: &[u64], rep: &WorldReport, prefix: &str, process_history: Option<u64>) -> String {
    let _ = std::fs::create_dir_all(format!("{dir}/replays"));
    let path = format!(
        "{dir}/replays/{prefix}{prop}-{}-{}-{seed}-{n}.json",
        sanitize(&v.class),
        sanitize(&format!("{:x}", mix_str(7, &v.shape)))
    );
    let doc = json!({
        "property": prop,
        "class": v.class,
        "shape": v.shape,
        "message": v.message,
        "verif_seed": seed,
        "world": n,
        "tape": tape,
        "process_history_from": process_history,
        "expanded": rep.sample,
    });
    std::fs::write(&path, serde_json::to_string_pretty(&doc).unwrap()).expect("write replay");
    path
}

/// `simctl replay <file>`: exit 1 + VIOLATION line if the file reproduces its violation
pub fn replay(path: &str) -> i32 {
    let Ok(s) = std::fs::read_to_string(path) else {
        eprintln!("cannot read {path}");
        return 2;
    };
    let Ok(doc) = serde_json::from_str::<serde_json::Value>(&s) else {
        eprintln!("cannot parse {path}");
        return 2;
    };
    let prop = doc["property"].as_str().unwrap_or("").to_string();
    let class = doc["class"].as_str().unwrap_or("").to_string();
    let shape = doc["shape"].as_str().unwrap_or("").to_string();
    let n = doc["world"].as_u64().unwrap_or(0);
    let tape: Vec<u64> = doc["tape"]
        .as_array()
        .map(|a| a.iter().filter_map(|x| x.as_u64()).collect())
        .unwrap_or_default();
    if class == "P2-signal" {
        // the world kills its process (abort / stack overflow / hang): replay it in a child from its search seed
        let seed = doc["verif_seed"].as_u64().unwrap_or(DEFAULT_SEED);
        let mut k = spawn_worker(&prop, Tier::Quick, seed, n, n + 1, false);
        let so = k.child.stdout.take().unwrap();
        let finished = BufReader::new(so).lines().map_while(Result::ok).any(|l| l.starts_with("Z "));
        let status = k.child.wait().expect("wait");
        return if !finished {
            println!("reproduced: {prop} P2-signal: the worker running world {n} ended with {status}");
            println!("VIOLATION property={prop} replay={path}");
            1
        } else {
            println!("not reproduced: world {n} ran to completion");
            0
        };
    }
    if let Some(from) = doc["process_history_from"].as_u64() {
        // the worlds the worker process had run before this one, in the same order, in this process
        let seed = doc["verif_seed"].as_u64().unwrap_or(DEFAULT_SEED);
        for k in from..n {
            let _ = run_one_quiet(&prop, Tier::Quick, k, Tape::search(world_seed(seed, &prop, k)));
        }
        println!("process history: worlds {from}..{n} replayed in this process before world {n}");
    }
    let rep = run_one_quiet(&prop, Tier::Quick, n, Tape::replay(tape));
    if let Some(e) = &rep.harness_error {
        eprintln!("HARNESS ERROR: {e}");
        return 2;
    }
    match rep.violations.iter().find(|v| v.class == class && v.shape == shape) {
        Some(v) => {
            println!("reproduced: {} {} [{}]: {}", prop, v.class, v.shape, v.message);
            println!("digest={}", rep.digest);
            println!("VIOLATION property={prop} replay={path}");
            1
        }
        None => {
            println!("not reproduced: {} {} [{}] (violations now: {:?})", prop, class, shape, rep.violations);
            0
        }
    }
}

fn confirm_in_fresh_process(path: &str) -> bool {
    let out = Command::new(self_exe())
        .arg("replay")
        .arg(path)
        .stderr(Stdio::null())
        .output();
    match out {
        Ok(o) => o.status.code() == Some(1),
        Err(_) => false,
    }
}

// ------------------------------------------------------------------ run

pub struct RunCfg {
    pub prop: String,
    pub tier: Tier,
    pub worlds: u64,
    pub workers: u64,
}

pub fn run(cfg: &RunCfg) -> i32 {
    let start = Instant::now();
    let seed = verif_seed();
    let dir = verif_dir();
    let prop = cfg.prop.as_str();
    println!("VERIF_SEED={seed} property={prop} tier={} worlds={} workers={}", cfg.tier.name(), cfg.worlds, cfg.workers);
    let known = load_known(&format!("{dir}/known_findings.jsonl"));

    let batch = run_batch(prop, cfg.tier, seed, cfg.worlds, cfg.workers, false);
    if !batch.harness_errors.is_empty() {
        for e in batch.harness_errors.iter().take(3) {
            eprintln!("HARNESS ERROR: {e}");
        }
        return 2;
    }

    // group failing worlds by (class, shape); smallest tape first
    let mut groups: BTreeMap<(String, String), Vec<(&WorldReport, &Violation)>> = BTreeMap::new();
    for rep in &batch.failing {
        for v in &rep.violations {
            groups.entry((v.class.clone(), v.shape.clone())).or_default().push((rep, v));
        }
    }
    let mut new_violations = 0;
    let mut known_lines = vec![];
    let mut violation_lines = vec![];
    let budget = if cfg.tier == Tier::Quick { 15.0 } else { 60.0 };
    let mut shrunk_groups = 0;
    for ((class, shape), members) in &groups {
        let probe = Violation {
            property: prop.to_string(),
            class: class.clone(),
            shape: shape.clone(),
            message: String::new(),
        };
        if let Some(k) = is_known(&known, &probe) {
            known_lines.push(format!(
                "KNOWN-FINDING: property={prop} {class} [{shape}] {} ({} worlds this run; e.g. world {})",
                k.what,
                members.len(),
                members[0].0.world
            ));
            continue;
        }
        new_violations += 1;
        // a member whose own tape reproduces the violation in a fresh process (smallest tapes first);
        // the code under test may keep process-wide state, in which case a world can fail only because
        // of the worlds its worker ran before it
        let mut sorted: Vec<&(&WorldReport, &Violation)> = members.iter().collect();
        sorted.sort_by_key(|(r, _)| r.tape.len());
        let mut standalone: Option<(&WorldReport, &Violation, String)> = None;
        for (rep, v) in sorted.iter().take(5) {
            let path = write_replay(&dir, prop, seed, rep.world, v, &rep.tape, rep, "");
            if confirm_in_fresh_process(&path) {
                standalone = Some((*rep, *v, path));
                break;
            }
            let _ = std::fs::remove_file(&path);
        }
        let (vv, path) = match standalone {
            Some((rep, v, path0)) => {
                // shrink only the first few classes: a broken tree can produce many
                if shrunk_groups < 4 {
                    shrunk_groups += 1;
                    let (t, r, tries) = shrink(prop, cfg.tier, rep.world, rep.tape.clone(), class, shape, budget);
                    println!("minimised {class} [{shape}]: tape {} -> {} entries in {tries} replays", rep.tape.len(), t.len());
                    let vv = r.violations.iter().find(|x| &x.class == class && &x.shape == shape).cloned().unwrap_or((*v).clone());
                    let path = write_replay(&dir, prop, seed, rep.world, &vv, &t, &r, "");
                    if confirm_in_fresh_process(&path) {
                        (vv, path)
                    } else {
                        // the minimised tape leaned on state left in this process by earlier replays:
                        // keep the unminimised one, which a fresh process does reproduce
                        println!("minimised tape of {class} [{shape}] does not replay in a fresh process; keeping the recorded tape");
                        let path = write_replay(&dir, prop, seed, rep.world, v, &rep.tape, rep, "");
                        ((*v).clone(), path)
                    }
                } else {
                    ((*v).clone(), path0)
                }
            }
            None => {
                let (rep, v) = sorted[0];
                let workers = cfg.workers.max(1).min(cfg.worlds.max(1));
                let chunk = (cfg.worlds + workers - 1) / workers;
                let from = (rep.world / chunk.max(1)) * chunk.max(1);
                let path = write_replay_hist(&dir, prop, seed, rep.world, v, &rep.tape, rep, "history-", Some(from));
                if !confirm_in_fresh_process(&path) {
                    eprintln!("HARNESS ERROR: replay of {path} in a fresh process did not reproduce {class} [{shape}], neither alone nor after the worlds {from}..{} its worker had run before it", rep.world);
                    return 2;
                }
                println!("{class} [{shape}] needs process history: reproduced by replaying worlds {from}..{} in one fresh process", rep.world);
                ((*v).clone(), path)
            }
        };
        println!("  {} [{}]: {} ({} worlds this run)", vv.class, vv.shape, vv.message, members.len());
        violation_lines.push(format!("VIOLATION property={prop} replay={path}"));
    }
    for (n, why) in &batch.crashed {
        // a worker died: abort / stack overflow / hang inside the code under test
        let v = Violation {
            property: prop.to_string(),
            class: "P2-signal".into(),
            shape: "worker-died".into(),
            message: format!("world {n}: {why}"),
        };
        if matches!(prop, "C14" | "C11" | "C16") {
            let tape = {
                // the tape of a crashing world cannot be recorded by the world itself; re-derive the search seed
                vec![]
            };
            let rep = WorldReport {
                world: *n,
                ..Default::default()
            };
            let path = write_replay(&dir, prop, seed, *n, &v, &tape, &rep, "crash-");
            if !confirm_in_fresh_process(&path) {
                eprintln!("HARNESS ERROR: world {n} killed its worker ({why}) but does not do so again when replayed alone");
                return 2;
            }
            new_violations += 1;
            println!("  {}", v.message);
            violation_lines.push(format!("VIOLATION property={prop} replay={path}"));
        } else {
            eprintln!("HARNESS ERROR: {}", v.message);
            return 2;
        }
    }

    let wall = start.elapsed().as_secs_f64();
    let per_hour = if wall > 0.0 { (batch.worlds as f64 / wall * 3600.0) as u64 } else { 0 };
    let info = crate::props::prop_info(prop);
    let evidence = json!({
        "property_id": prop,
        "tier": cfg.tier.name(),
        "seed": seed,
        "level": "exploration",
        "coverage": {
            "evaluations": batch.evaluations.max(batch.worlds),
            "distinct_nontrivial": batch.digests.len(),
            "rule": info.rule,
            "samples": batch.samples,
            "simulated_runs": batch.worlds,
            "simulated_runs_per_hour": per_hour,
            "seeds_per_hour": per_hour,
            "simulated_ticks": batch.ticks,
            "simulated_wall_clock_s": batch.probes.get("simulated-wall-clock-ms").copied().unwrap_or(0) / 1000,
            "worlds_in_which_the_code_under_test_read_the_clock": batch.probes.get("clock-read-by-code-under-test").copied().unwrap_or(0),
            "events_logged": batch.events,
            "stub_store_calls": batch.stub_calls,
            "faults_fired": batch.fired,
            "reach_probes": batch.probes,
            "distinct_state_signatures": batch.sigs.len(),
            "real_components": info.real,
            "stubbed_components": info.stubbed,
            "known_findings_reported": known_lines,
            "violation_classes_new": new_violations,
            "workers": cfg.workers,
            "exhaustive": false,
        },
        "assumptions": info.assumptions,
        "wall_s": wall,
        "violations": new_violations,
    });
    let _ = std::fs::create_dir_all(format!("{dir}/evidence"));
    std::fs::write(
        format!("{dir}/evidence/{prop}.json"),
        serde_json::to_string_pretty(&evidence).unwrap(),
    )
    .expect("write evidence");

    println!(
        "{} worlds, {} distinct non-trivial, {} state signatures, {:.1}s ({} worlds/hour); faults fired: {:?}",
        batch.worlds,
        batch.digests.len(),
        batch.sigs.len(),
        wall,
        per_hour,
        batch.fired
    );
    println!("reach probes: {:?}", batch.probes);
    for l in &known_lines {
        println!("{l}");
    }
    for l in &violation_lines {
        println!("{l}");
    }
    if new_violations > 0 {
        1
    } else {
        println!("OK property={prop} held on everything explored");
        0
    }
}

// ------------------------------------------------------------------ determinism self-test

pub fn selftest(props: &[&str], n: u64) -> i32 {
    let seed = verif_seed();
    for prop in props {
        let a = run_batch(prop, Tier::Quick, seed, n, 4, true);
        let b = run_batch(prop, Tier::Quick, seed, n, 16, true);
        let c = run_batch(prop, Tier::Quick, seed, n.min(60), 1, true);
        if !a.harness_errors.is_empty() {
            eprintln!("HARNESS ERROR: {}", a.harness_errors[0]);
            return 2;
        }
        let mut bad = 0;
        for (w, x) in &a.per_world {
            if b.per_world.get(w) != Some(x) {
                bad += 1;
                if bad < 4 {
                    eprintln!("determinism: {prop} world {w}: {:?} vs {:?}", x, b.per_world.get(w));
                }
            }
            if let Some(y) = c.per_world.get(w) {
                if y != x {
                    bad += 1;
                    if bad < 4 {
                        eprintln!("determinism: {prop} world {w}: {:?} vs {:?} (1 worker)", x, y);
                    }
                }
            }
        }
        if a.per_world.len() as u64 != n || b.per_world.len() as u64 != n {
            eprintln!("determinism: {prop}: missing worlds ({} / {} of {n})", a.per_world.len(), b.per_world.len());
            bad += 1;
        }
        if bad > 0 {
            eprintln!("HARNESS ERROR: determinism self-test failed for {prop}: {bad} divergent worlds of {n}");
            return 2;
        }
        println!("determinism {prop}: {n} worlds x (4 workers, 16 workers, 1 worker) identical digests and verdicts");
    }
    0
}
