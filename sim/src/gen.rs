//! Tape-driven generator of tx3 *source text* (the real front end turns it
//! into TIR), of arguments and of ledgers.

use std::collections::BTreeMap;

use tx3_tir::model::v1beta0 as tir;
use tx3_tir::reduce::{ArgMap, ArgValue};

use crate::chain::*;
use crate::tape::Tape;

#[derive(Clone, Debug)]
pub struct Party {
    pub name: String,
    pub addr: Vec<u8>,
}

#[derive(Clone, Debug)]
pub struct Token {
    pub ident: String,
    pub policy: Vec<u8>,
    pub name: Vec<u8>,
    /// `AnyAsset(..)` terms name the policy through a `policy TP<i> = 0x..;` definition instead of
    /// writing the hash out
    pub policy_by_name: bool,
}

impl Token {
    pub fn key(&self) -> ClassKey {
        Some((self.policy.clone(), self.name.clone()))
    }
}

#[derive(Clone, Debug, PartialEq)]
pub enum Q {
    Lit(i128),
    Param(String),
}

#[derive(Clone, Debug, PartialEq)]
pub enum Term {
    Ada(Q),
    Tok(usize, Q),
    /// AnyAsset(<policy of token i>, <Bytes parameter>, q): the asset name arrives as an argument
    AnyTok(usize, String, Q),
    Fees,
    MinUtxo(String),
    Input(String),
    /// a `locals { name: <amount>, }` entry used by name
    Local(String, Box<Amount>),
    /// `Ada(<input>.a)`: the first field of the input's datum (declared `datum_is: Rec`) as a quantity
    AdaField(String),
}

#[derive(Clone, Debug, Default, PartialEq)]
pub struct Amount(pub Vec<(bool, Term)>); // (negative?, term); first term is always positive

#[derive(Clone, Debug)]
pub struct InputSpec {
    pub name: String,
    pub many: bool,
    pub from: Option<usize>,
    pub ref_param: Option<String>,
    pub min: Option<Amount>,
    pub redeemer: bool,
    /// `redeemer: Act::A<k>` (a case of the ten-case variant type) instead of `()`
    pub redeemer_case: Option<u8>,
    pub datum_is: bool,
    /// `datum_is: Int` instead of `datum_is: Rec`: the whole datum is one integer
    pub datum_int: bool,
}

#[derive(Clone, Debug)]
pub enum DatumSpec {
    /// Rec { a: <q>, b: 0x.. }
    Rec(Q),
    /// Rec { a: <q>, ...input }
    Spread(Q, String),
    /// Rec { a: input.a + <q>, b: input.b }
    FromInput(String, Q),
    /// Rec { a: input.l[<q>], b: input.b, l: input.l }
    Index(String, Q),
    /// Rec { a: input.a - <q>, b: input.b, l: input.l }  (the left operand is nothing when the UTxO has no datum)
    FromInputSub(String, Q),
    /// `datum: input - <q>` / `datum: input + <q>` for an input declared `datum_is: Int`
    Whole(String, bool, Q),
    /// RecM { m: {<k1>: 1, <input>.a: 2, <k2>: 3,}, }: a map literal whose keys are bound at
    /// different stages (two arguments and a datum field) and may coincide
    MapLit(String, Q, Q),
    /// a catalogue of datum shapes over language features the other shapes do not use: nested records,
    /// an alias type, a variant with a unit and a struct case, a list of records, a map keyed by
    /// bytes, booleans (and `!`), text in a Bytes field, `concat` of bytes, `0 - q`
    Misc { shape: u8, q: Q, bytes: Option<String>, flag: Option<String> },
}

#[derive(Clone, Debug)]
pub struct OutputSpec {
    pub name: Option<String>,
    pub optional: bool,
    pub to: usize,
    /// pay to the script address of a declared policy instead of a party
    pub to_policy: Option<usize>,
    pub amount: Amount,
    pub datum: Option<DatumSpec>,
}

#[derive(Clone, Debug)]
pub struct MintSpec {
    pub tok: usize,
    pub q: Q,
    pub redeemer: bool,
    pub redeemer_case: Option<u8>,
}

#[derive(Clone, Debug)]
pub enum SlotExpr {
    TipPlus(i128),
    Q(Q),
    /// time_to_slot(slot_to_time(tip_slot() + k))
    RoundTrip(i128),
    /// time_to_slot(<q>): a bound given as a time; a time before the chain's origin has no slot
    FromTime(Q),
}

#[derive(Clone, Debug)]
pub enum MetaVal {
    Str(String),
    Int(Q),
    BytesParam(String),
    /// slot_to_time(time_to_slot(<literal time>)): snaps a timestamp to the slot grid
    TimeSnap(i128),
    /// concat("<ascii padding>", "<tail>"): a text longer than one metadata chunk, built from two
    /// literals that each pass the analyzer's length check
    LongText(usize, String),
}

#[derive(Clone, Debug)]
pub enum Directive {
    /// `compound`: the amount is written `<q> + <zz-param>` - a parameter (always 0) that occurs nowhere
    /// but inside the expression of this directive field
    Withdrawal { from: usize, amount: Q, redeemer: bool, compound: Option<String> },
    PlutusWitness { version: u8, script: Vec<u8>, script_param: Option<String> },
    /// index into a small catalogue of native scripts (see `native_script`)
    NativeWitness(u8),
    /// coin: <q> (or `<q> + 0`: the parameter sits inside an expression of the directive field)
    Donation(Q, Option<String>),
    VoteDeleg { drep: Vec<u8>, stake: usize },
    Publish { to: usize, amount: Q, version: Option<u8> },
}

#[derive(Clone, Debug, PartialEq)]
pub enum Ty {
    Int,
    Bytes,
    UtxoRef,
    Bool,
}

#[derive(Clone, Debug, Default)]
pub struct TxSpec {
    pub name: String,
    pub params: Vec<(String, Ty)>,
    pub inputs: Vec<InputSpec>,
    pub collateral: Option<InputSpec>,
    pub reference: Option<String>, // UtxoRef param
    pub outputs: Vec<OutputSpec>,
    pub mints: Vec<MintSpec>,
    pub burns: Vec<MintSpec>,
    pub validity: Option<(Option<SlotExpr>, Option<SlotExpr>)>,
    pub signers: Vec<usize>,
    /// Bytes parameters used as signer key hashes
    pub signer_params: Vec<String>,
    pub metadata: Vec<(u64, MetaVal)>,
    pub directives: Vec<Directive>,
    pub balanced: bool,
    /// `locals { .. }` entries
    pub locals: Vec<(String, Amount)>,
    /// order in which the kinds of blocks are written (0: the usual order)
    pub layout: u64,
}

#[derive(Clone, Debug, Default)]
pub struct Program {
    pub parties: Vec<Party>,
    /// `policy <name> = 0x<hash>;` definitions
    pub policies: Vec<(String, Vec<u8>)>,
    pub tokens: Vec<Token>,
    pub has_rec: bool,
    /// declares `type RecM { m: Map<Int, Int>, }`
    pub has_recm: bool,
    /// declares `type Act { A0, ..., A9 }`
    pub has_act: bool,
    /// declares the types of the `Misc` datum catalogue
    pub has_misc: bool,
    pub env: Vec<(String, Ty)>,
    /// the program declares `env` twice, with the same fields
    pub env_twice: bool,
    pub txs: Vec<TxSpec>,
    /// order in which the top-level sections are written (0: the usual order)
    pub layout: u64,
}

pub fn addr_for(i: usize, network_main: bool, base: bool) -> Vec<u8> {
    let mut a = Vec::new();
    let net = if network_main { 1u8 } else { 0u8 };
    if base {
        a.push(net);
        a.extend(std::iter::repeat(0xA0 + i as u8).take(28));
        a.extend(std::iter::repeat(0x50 + i as u8).take(28));
    } else {
        a.push(0x60 | net);
        a.extend(std::iter::repeat(0xA0 + i as u8).take(28));
    }
    a
}

const PARTY_NAMES: [&str; 4] = ["Alice", "Bob", "Carol", "Dave"];
const TOKEN_NAMES: [&str; 3] = ["TKA", "TKB", "TKC"];

// ---------------------------------------------------------------- printing

fn pq(q: &Q) -> String {
    match q {
        Q::Lit(n) => format!("{}", n),
        Q::Param(p) => p.clone(),
    }
}

impl Program {
    fn pterm(&self, t: &Term) -> String {
        match t {
            Term::Ada(q) => format!("Ada({})", pq(q)),
            Term::Tok(i, q) => format!("{}({})", self.tokens[*i].ident, pq(q)),
            Term::AnyTok(i, name, q) => {
                if self.tokens[*i].policy_by_name {
                    format!("AnyAsset(TP{}, {}, {})", i, name, pq(q))
                } else {
                    format!("AnyAsset(0x{}, {}, {})", hex::encode(&self.tokens[*i].policy), name, pq(q))
                }
            }
            Term::Fees => "fees".into(),
            Term::MinUtxo(o) => format!("min_utxo({})", o),
            Term::Input(n) => n.clone(),
            Term::Local(n, _) => n.clone(),
            Term::AdaField(i) => format!("Ada({}.a)", i),
        }
    }

    fn pamount(&self, a: &Amount) -> String {
        let mut s = String::new();
        for (i, (neg, t)) in a.0.iter().enumerate() {
            if i == 0 {
                s.push_str(&self.pterm(t));
            } else {
                s.push_str(if *neg { " - " } else { " + " });
                s.push_str(&self.pterm(t));
            }
        }
        s
    }

    fn pslot(&self, s: &SlotExpr) -> String {
        match s {
            SlotExpr::TipPlus(k) => {
                if *k == 0 {
                    "tip_slot()".into()
                } else {
                    format!("tip_slot() + {}", k)
                }
            }
            SlotExpr::Q(q) => pq(q),
            SlotExpr::RoundTrip(k) => format!("time_to_slot(slot_to_time(tip_slot() + {}))", k),
            SlotExpr::FromTime(q) => format!("time_to_slot({})", pq(q)),
        }
    }

    pub fn source(&self) -> String {
        let s = self.source_in_order();
        if self.layout == 0 {
            return s;
        }
        // declarations may come in any order: permute the top-level sections (a section starts at a
        // line that begins a declaration and runs to the next such line)
        let mut sections: Vec<String> = vec![];
        for line in s.lines() {
            let starts = ["env ", "party ", "policy ", "asset ", "type ", "tx "].iter().any(|k| line.starts_with(k));
            if starts || sections.is_empty() {
                sections.push(String::new());
            }
            let last = sections.last_mut().unwrap();
            last.push_str(line);
            last.push('\n');
        }
        permute(&mut sections, self.layout);
        sections.concat()
    }

    fn source_in_order(&self) -> String {
        let mut s = String::new();
        if self.env_twice && !self.env.is_empty() {
            // `env` declared twice, field for field the same (whichever block the front end keeps,
            // the program means the same)
            s.push_str("env {\n");
            for (n, t) in self.env.iter() {
                s.push_str(&format!("    {}: {},\n", n, pty(t)));
            }
            s.push_str("}\n\n");
        }
        if !self.env.is_empty() {
            s.push_str("env {\n");
            for (n, t) in &self.env {
                s.push_str(&format!("    {}: {},\n", n, pty(t)));
            }
            s.push_str("}\n\n");
        }
        for p in &self.parties {
            s.push_str(&format!("party {};\n", p.name));
        }
        for (n, h) in &self.policies {
            s.push_str(&format!("policy {} = 0x{};\n", n, hex::encode(h)));
        }
        for (i, t) in self.tokens.iter().enumerate() {
            if t.policy_by_name {
                s.push_str(&format!("policy TP{} = 0x{};\n", i, hex::encode(&t.policy)));
            }
        }
        s.push('\n');
        for t in &self.tokens {
            s.push_str(&format!(
                "asset {} = 0x{}.\"{}\";\n",
                t.ident,
                hex::encode(&t.policy),
                String::from_utf8_lossy(&t.name)
            ));
        }
        if self.has_rec {
            s.push_str("\ntype Rec {\n    a: Int,\n    b: Bytes,\n    l: List<Int>,\n}\n");
        }
        if self.has_recm {
            s.push_str("\ntype RecM {\n    m: Map<Int, Int>,\n}\n");
        }
        if self.has_misc {
            s.push_str("\ntype Alias0 = Int;\n\ntype Inner {\n    x: Alias0,\n    y: Bytes,\n}\n\ntype Var3 {\n    Plain,\n    Named {\n        p: Int,\n        fq: Bool,\n    },\n}\n\ntype Holder {\n    v: AnyAsset,\n}\n\ntype Outer {\n    n: Int,\n    inner: Inner,\n    v: Var3,\n    items: List<Inner>,\n    tags: Map<Bytes, Int>,\n    flag: Bool,\n    s: Bytes,\n}\n");
        }
        if self.has_act {
            s.push_str("\ntype Act {\n");
            for k in 0..10 {
                s.push_str(&format!("    A{},\n", k));
            }
            s.push_str("}\n");
        }
        for tx in &self.txs {
            s.push('\n');
            s.push_str(&self.tx_source(tx));
        }
        s
    }

    fn input_fields(&self, i: &InputSpec, s: &mut String) {
        if let Some(f) = i.from {
            s.push_str(&format!("        from: {},\n", self.parties[f].name));
        }
        if i.datum_is {
            s.push_str(if i.datum_int { "        datum_is: Int,\n" } else { "        datum_is: Rec,\n" });
        }
        if let Some(r) = &i.ref_param {
            s.push_str(&format!("        ref: {},\n", r));
        }
        if let Some(m) = &i.min {
            s.push_str(&format!("        min_amount: {},\n", self.pamount(m)));
        }
        if i.redeemer {
            match i.redeemer_case {
                Some(k) => s.push_str(&format!("        redeemer: Act::A{} {{}},\n", k)),
                None => s.push_str("        redeemer: (),\n"),
            }
        }
    }

    fn tx_source(&self, tx: &TxSpec) -> String {
        let s = self.tx_source_in_order(tx);
        if tx.layout == 0 {
            return s;
        }
        // blocks of one kind keep their relative order (outputs are positional); the kinds move
        let lines: Vec<&str> = s.lines().collect();
        let open = lines.iter().position(|l| l.starts_with(") {")).unwrap_or(0);
        let head: Vec<&str> = lines[..=open].to_vec();
        let mut groups: Vec<(String, String)> = vec![];
        let mut cur: Option<(String, String)> = None;
        for l in &lines[open + 1..lines.len() - 1] {
            if cur.is_none() {
                let kind: String = l.trim_start().split(|c: char| c == ' ' || c == '{').next().unwrap_or("").trim_end_matches('*').to_string();
                cur = Some((kind, String::new()));
            }
            let c = cur.as_mut().unwrap();
            c.1.push_str(l);
            c.1.push('\n');
            if *l == "    }" {
                let (k, text) = cur.take().unwrap();
                match groups.iter_mut().find(|(gk, _)| *gk == k) {
                    Some(g) => g.1.push_str(&text),
                    None => groups.push((k, text)),
                }
            }
        }
        let mut texts: Vec<String> = groups.into_iter().map(|(_, t)| t).collect();
        permute(&mut texts, tx.layout);
        format!("{}\n{}}}\n", head.join("\n"), texts.concat())
    }

    fn tx_source_in_order(&self, tx: &TxSpec) -> String {
        let mut s = String::new();
        s.push_str(&format!("tx {}(\n", tx.name));
        for (n, t) in &tx.params {
            s.push_str(&format!("    {}: {},\n", n, pty(t)));
        }
        s.push_str(") {\n");
        if !tx.locals.is_empty() {
            s.push_str("    locals {\n");
            for (n, a) in &tx.locals {
                s.push_str(&format!("        {}: {},\n", n, self.pamount(a)));
            }
            s.push_str("    }\n");
        }
        if let Some(r) = &tx.reference {
            s.push_str(&format!("    reference refblock {{\n        ref: {},\n    }}\n", r));
        }
        for i in &tx.inputs {
            s.push_str(&format!("    input{} {} {{\n", if i.many { "*" } else { "" }, i.name));
            self.input_fields(i, &mut s);
            s.push_str("    }\n");
        }
        if let Some(c) = &tx.collateral {
            s.push_str("    collateral {\n");
            self.input_fields(c, &mut s);
            s.push_str("    }\n");
        }
        for m in &tx.mints {
            s.push_str(&format!(
                "    mint {{\n        amount: {}({}),\n{}    }}\n",
                self.tokens[m.tok].ident,
                pq(&m.q),
                match (m.redeemer, m.redeemer_case) {
                    (true, Some(k)) => format!("        redeemer: Act::A{} {{}},\n", k),
                    (true, None) => "        redeemer: (),\n".to_string(),
                    _ => String::new(),
                }
            ));
        }
        for m in &tx.burns {
            s.push_str(&format!(
                "    burn {{\n        amount: {}({}),\n{}    }}\n",
                self.tokens[m.tok].ident,
                pq(&m.q),
                match (m.redeemer, m.redeemer_case) {
                    (true, Some(k)) => format!("        redeemer: Act::A{} {{}},\n", k),
                    (true, None) => "        redeemer: (),\n".to_string(),
                    _ => String::new(),
                }
            ));
        }
        for o in &tx.outputs {
            s.push_str(&format!(
                "    output{}{} {{\n        to: {},\n        amount: {},\n",
                if o.optional { " ?" } else { "" },
                o.name.as_ref().map(|n| format!(" {}", n)).unwrap_or_default(),
                match o.to_policy {
                    Some(k) => self.policies[k].0.clone(),
                    None => self.parties[o.to].name.clone(),
                },
                self.pamount(&o.amount)
            ));
            match &o.datum {
                None => {}
                Some(DatumSpec::Rec(q)) => {
                    s.push_str(&format!("        datum: Rec {{ a: {}, b: 0xBEEF, l: [1, 2, 3], }},\n", pq(q)))
                }
                Some(DatumSpec::Spread(q, i)) => {
                    s.push_str(&format!("        datum: Rec {{ a: {}, ...{} }},\n", pq(q), i))
                }
                Some(DatumSpec::FromInput(i, q)) => s.push_str(&format!(
                    "        datum: Rec {{ a: {}.a + {}, b: {}.b, l: {}.l, }},\n",
                    i,
                    pq(q),
                    i,
                    i
                )),
                Some(DatumSpec::MapLit(i, k1, k2)) => s.push_str(&format!(
                    "        datum: RecM {{ m: {{{}: 1, {}.a: 2, {}: 3,}}, }},\n",
                    pq(k1),
                    i,
                    pq(k2)
                )),
                Some(DatumSpec::Misc { shape, q, bytes, flag }) => {
                    let bs = bytes.clone().unwrap_or_else(|| "0x01".to_string());
                    let fl = flag.clone().unwrap_or_else(|| "true".to_string());
                    let text = match shape {
                        0 => format!(
                            "Outer {{ n: 0 - {q}, inner: Inner {{ x: {q} + 1, y: concat({bs}, 0xAB), }}, v: Var3::Named {{ p: {q}, fq: {fl}, }}, items: [Inner {{ x: 1, y: 0x01, }}, Inner {{ x: {q}, y: {bs}, }},], tags: {{0xAA: 1, {bs}: {q},}}, flag: !{fl}, s: \"text\", }}",
                            q = pq(q)
                        ),
                        1 => "Var3::Plain {}".to_string(),
                        2 => format!("Var3::Named {{ p: {}, fq: {fl}, }}", pq(q)),
                        4 => match self.tokens.first() {
                            // an asset expression as a datum field (the quantity is the value under test)
                            Some(tk) => format!("Holder {{ v: {}({}), }}", tk.ident, pq(q)),
                            None => format!("Holder {{ v: Ada({}), }}", pq(q)),
                        },
                        _ => format!("Inner {{ x: 0 - {}, y: concat({bs}, 0xAB), }}", pq(q)),
                    };
                    s.push_str(&format!("        datum: {},\n", text));
                }
                Some(DatumSpec::Whole(i, sub, q)) => s.push_str(&format!(
                    "        datum: {} {} {},\n",
                    i,
                    if *sub { "-" } else { "+" },
                    pq(q)
                )),
                Some(DatumSpec::FromInputSub(i, q)) => s.push_str(&format!(
                    "        datum: Rec {{ a: {}.a - {}, b: {}.b, l: {}.l, }},\n",
                    i,
                    pq(q),
                    i,
                    i
                )),
                Some(DatumSpec::Index(i, q)) => s.push_str(&format!(
                    "        datum: Rec {{ a: {}.l[{}], b: {}.b, l: {}.l, }},\n",
                    i,
                    pq(q),
                    i,
                    i
                )),
            }
            s.push_str("    }\n");
        }
        if let Some((since, until)) = &tx.validity {
            s.push_str("    validity {\n");
            if let Some(x) = since {
                s.push_str(&format!("        since_slot: {},\n", self.pslot(x)));
            }
            if let Some(x) = until {
                s.push_str(&format!("        until_slot: {},\n", self.pslot(x)));
            }
            s.push_str("    }\n");
        }
        if !tx.signers.is_empty() || !tx.signer_params.is_empty() {
            s.push_str("    signers {\n");
            for p in &tx.signers {
                s.push_str(&format!("        {},\n", self.parties[*p].name));
            }
            for p in &tx.signer_params {
                s.push_str(&format!("        {},\n", p));
            }
            s.push_str("    }\n");
        }
        if !tx.metadata.is_empty() {
            s.push_str("    metadata {\n");
            for (k, v) in &tx.metadata {
                let vs = match v {
                    MetaVal::Str(x) => format!("\"{}\"", x),
                    MetaVal::Int(q) => pq(q),
                    MetaVal::BytesParam(p) => p.clone(),
                    MetaVal::TimeSnap(ms) => format!("slot_to_time(time_to_slot({}))", ms),
                    MetaVal::LongText(pad, tail) => format!("concat(\"{}\", \"{}\")", "m".repeat(*pad), tail),
                };
                s.push_str(&format!("        {}: {},\n", k, vs));
            }
            s.push_str("    }\n");
        }
        for d in &tx.directives {
            match d {
                Directive::Withdrawal { from, amount, redeemer, compound } => s.push_str(&format!(
                    "    cardano::withdrawal {{\n        from: {},\n        amount: {}{},\n{}    }}\n",
                    self.parties[*from].name,
                    pq(amount),
                    match compound { Some(z) => format!(" + {z}"), None => String::new() },
                    if *redeemer { "        redeemer: (),\n" } else { "" }
                )),
                Directive::PlutusWitness { version, script, script_param } => s.push_str(&format!(
                    "    cardano::plutus_witness {{\n        version: {},\n        script: {},\n    }}\n",
                    version,
                    match script_param {
                        Some(p) => p.clone(),
                        None => format!("0x{}", hex::encode(script)),
                    }
                )),
                Directive::NativeWitness(k) => s.push_str(&format!(
                    "    cardano::native_witness {{\n        script: 0x{},\n    }}\n",
                    hex::encode(native_script(*k))
                )),
                Directive::Donation(q, compound) => s.push_str(&format!(
                    "    cardano::treasury_donation {{\n        coin: {}{},\n    }}\n",
                    pq(q),
                    match compound { Some(z) => format!(" + {z}"), None => String::new() }
                )),
                Directive::VoteDeleg { drep, stake } => s.push_str(&format!(
                    "    cardano::vote_delegation_certificate {{\n        drep: 0x{},\n        stake: {},\n    }}\n",
                    hex::encode(drep),
                    self.parties[*stake].name
                )),
                Directive::Publish { to, amount, version } => s.push_str(&format!(
                    "    cardano::publish {{\n        to: {},\n        amount: Ada({}),\n{}    }}\n",
                    self.parties[*to].name,
                    pq(amount),
                    match version {
                        Some(v) => format!("        version: {},\n        script: 0x5101010023259800a518a4d136564004ae69,\n", v),
                        None => String::new(),
                    }
                )),
            }
        }
        s.push_str("}\n");
        s
    }
}

/// native scripts as CBOR: the usual shapes and legal corner cases (a threshold above the number of
/// branches is unsatisfiable, not malformed)
pub fn native_script(k: u8) -> Vec<u8> {
    let sig = |b: u8| {
        let mut v = vec![0x82, 0x00, 0x58, 0x1c];
        v.extend(std::iter::repeat(b).take(28));
        v
    };
    match k {
        // all [ invalid_before 0 ]
        0 => hex::decode("820181820400").unwrap(),
        // atLeast 3 [sig a, sig b]
        1 => [vec![0x83, 0x03, 0x03, 0x82], sig(0xAA), sig(0xBB)].concat(),
        // atLeast 0 []
        2 => vec![0x83, 0x03, 0x00, 0x80],
        // any []
        3 => vec![0x82, 0x02, 0x80],
        // all [ atLeast 2 [sig a, sig b, sig c] ]
        4 => [vec![0x82, 0x01, 0x81, 0x83, 0x03, 0x02, 0x83], sig(0xAA), sig(0xBB), sig(0xCC)].concat(),
        // atLeast 2^32 [sig a]
        5 => [vec![0x83, 0x03, 0x1a, 0xff, 0xff, 0xff, 0xff, 0x81], sig(0xAA)].concat(),
        // all [sig Alice, sig Bob]: the key hashes of the program's own parties (a 2-of-2 policy whose
        // keys the transaction may also list under `signers`)
        6 => [vec![0x82, 0x01, 0x82], sig(0xA0), sig(0xA1)].concat(),
        // sig Bob
        _ => sig(0xA1),
    }
}

/// a permutation of `xs` decided by `seed` alone (Fisher-Yates over a small LCG)
fn permute<T>(xs: &mut [T], seed: u64) {
    let mut x = seed.wrapping_mul(0x9E37_79B9_7F4A_7C15) | 1;
    for i in (1..xs.len()).rev() {
        x = x.wrapping_mul(6364136223846793005).wrapping_add(1442695040888963407);
        let j = ((x >> 33) as usize) % (i + 1);
        xs.swap(i, j);
    }
}

fn pty(t: &Ty) -> &'static str {
    match t {
        Ty::Int => "Int",
        Ty::Bytes => "Bytes",
        Ty::UtxoRef => "UtxoRef",
        Ty::Bool => "Bool",
    }
}

// ---------------------------------------------------------------- generation

#[derive(Clone, Copy, Debug, PartialEq)]
pub enum Profile {
    /// input selection: many input shapes, simple outputs
    Selection,
    /// fee loop: fees in outputs / min_amount, min_utxo
    Fee,
    /// everything: directives, metadata, datums, validity, signers
    Rich,
    /// amounts and quantities at numeric boundaries
    Boundary,
}

pub struct GenCfg {
    pub profile: Profile,
    pub mainnet: bool,
    pub max_txs: usize,
    /// Some(true): every tx uses min_utxo; Some(false): none does; None: profile default
    pub force_min_utxo: Option<bool>,
    /// more (and multi-field) cardano:: directives
    pub rich_directives: bool,
    /// more optional outputs with amounts that evaluate to zero
    pub optional_bias: bool,
    /// more inputs with `datum_is` and more outputs whose datum reads them
    pub datum_bias: bool,
}

fn small_q(t: &mut Tape, params: &mut Vec<(String, Ty)>, hint: &str) -> Q {
    if t.chance(1, 2) {
        let name = format!("{}{}", hint, params.len());
        params.push((name.clone(), Ty::Int));
        Q::Param(name)
    } else {
        Q::Lit(*t.pick(&[2_000_000i128, 1, 0, 5, 1_000_000, 3_000_000, 10_000_000]))
    }
}

pub fn gen_program(t: &mut Tape, cfg: &GenCfg) -> Program {
    let mut p = Program::default();
    let nparties = 2 + t.index(2);
    let base = t.chance(1, 4);
    for i in 0..nparties {
        p.parties.push(Party {
            name: PARTY_NAMES[i].to_string(),
            addr: addr_for(i, cfg.mainnet, base),
        });
    }
    let ntok = match cfg.profile {
        Profile::Fee => t.index(2),
        Profile::Selection => t.weighted(&[2, 3, 4]),
        _ => t.index(3),
    };
    for i in 0..ntok {
        // token 1 may share the policy of token 0
        let pol_id = if i == 1 && t.chance(1, 3) { 0 } else { i };
        p.tokens.push(Token {
            ident: format!("Tok{}", i),
            policy: std::iter::repeat(0x11 * (pol_id as u8 + 1)).take(28).collect(),
            // the empty asset name is legal (and is where "no name" and "empty name" can be confused)
            name: if t.chance(1, 6) { vec![] } else { TOKEN_NAMES[i].as_bytes().to_vec() },
            policy_by_name: cfg.profile != Profile::Selection && t.chance(1, 4),
        });
    }
    if cfg.profile == Profile::Rich && t.chance(1, 3) {
        let n = 1 + t.index(2);
        for i in 0..n {
            p.policies.push((format!("Pol{}", i), std::iter::repeat(0x61 + i as u8 * 7).take(28).collect()));
        }
    }
    if cfg.profile != Profile::Selection && t.chance(1, 5) {
        // values that arrive through the environment rather than as transaction arguments
        p.env.push(("ev0".to_string(), Ty::Int));
        if t.chance(1, 3) {
            p.env.push(("ev1".to_string(), Ty::Int));
        }
        if t.chance(1, 3) {
            p.env.push(("ev2".to_string(), Ty::Bytes));
            p.env.push(("ev3".to_string(), Ty::Int));
        }
        p.env_twice = t.chance(1, 4);
    }
    let ntx = 1 + t.index(cfg.max_txs.max(1));
    for k in 0..ntx {
        let mut tx = gen_tx(t, cfg, &mut p, k);
        // transactions of one protocol resemble each other: a later one may carry the first one's
        // metadata entries - all of them, a prefix, or all plus one more (content-keyed memos of a
        // compiler that serves both are then one comparison away from confusing them)
        if k > 0 && (cfg.profile == Profile::Rich || cfg.profile == Profile::Boundary) && t.chance(1, 3) {
            let base: Vec<(u64, MetaVal)> = p.txs[0].metadata.clone();
            let literal = |v: &MetaVal| matches!(v, MetaVal::Str(_) | MetaVal::TimeSnap(_) | MetaVal::LongText(..) | MetaVal::Int(Q::Lit(_)));
            if !base.is_empty() && base.iter().all(|(_, v)| literal(v)) {
                let mut m = base.clone();
                match t.draw(3) {
                    0 => {
                        m.truncate(1 + t.index(m.len()));
                    }
                    1 => m.push((m.last().map(|x| x.0).unwrap_or(0) + 1, MetaVal::Str("one more".into()))),
                    _ => {}
                }
                tx.metadata = m;
            } else if base.is_empty() && !tx.metadata.is_empty() && tx.metadata.iter().all(|(_, v)| literal(v)) && t.chance(1, 2) {
                // or the other way round: the first transaction gets a prefix of this one's
                let mut m = tx.metadata.clone();
                m.truncate(1 + t.index(m.len()));
                p.txs[0].metadata = m;
            }
        }
        p.txs.push(tx);
    }
    // one program in four is written with its declarations in another order
    p.layout = if t.chance(1, 4) { 1 + t.draw(1 << 20) } else { 0 };
    p
}

fn gen_min(t: &mut Tape, cfg: &GenCfg, p: &Program, params: &mut Vec<(String, Ty)>, outs: &[String], prev_input: Option<&str>) -> Option<Amount> {
    let mut terms: Vec<(bool, Term)> = vec![];
    let shape = match cfg.profile {
        // histories (C20): thresholds that mention min_utxo(..) are where a stale body can decide
        _ if cfg.force_min_utxo == Some(true) && !outs.is_empty() && t.chance(1, 2) => 4,
        Profile::Selection => t.weighted(&[4, 2, 3, 2, 1]),
        Profile::Fee => t.weighted(&[2, 0, 1, 5, 3]),
        _ => t.weighted(&[3, 1, 2, 3, 2]),
    };
    if let Some(prev) = prev_input {
        if t.chance(1, 14) {
            // `min_amount: <another input>`: the query of this block depends on what that block is bound to
            return Some(Amount(vec![(false, Term::Input(prev.to_string()))]));
        }
    }
    match shape {
        0 => terms.push((false, Term::Ada(small_q(t, params, "q")))),
        1 => return None,
        2 => {
            if p.tokens.is_empty() {
                terms.push((false, Term::Ada(small_q(t, params, "q"))));
            } else {
                let i = t.index(p.tokens.len());
                terms.push((false, Term::Tok(i, small_q(t, params, "n"))));
                if t.chance(1, 2) {
                    terms.push((false, Term::Ada(small_q(t, params, "q"))));
                }
                if p.tokens.len() > 1 && t.chance(1, 2) {
                    let j = (i + 1) % p.tokens.len();
                    terms.push((false, Term::Tok(j, small_q(t, params, "n"))));
                }
            }
        }
        3 => {
            terms.push((false, Term::Ada(small_q(t, params, "q"))));
            terms.push((false, Term::Fees));
        }
        _ => {
            terms.push((false, Term::Fees));
            if !outs.is_empty() && t.chance(2, 3) {
                let o = t.index(outs.len());
                terms.push((false, Term::MinUtxo(outs[o].clone())));
            }
        }
    }
    Some(Amount(terms))
}

fn gen_tx(t: &mut Tape, cfg: &GenCfg, p: &mut Program, k: usize) -> TxSpec {
    let mut tx = TxSpec {
        name: format!("tx{}", k),
        balanced: true,
        ..Default::default()
    };
    let mut params: Vec<(String, Ty)> = vec![];
    let np = p.parties.len();

    // outputs are named up front so min_amount can mention min_utxo(out)
    let nout = match cfg.profile {
        Profile::Selection => 1 + t.index(2),
        _ => 1 + t.index(4),
    };
    let out_names: Vec<String> = (0..nout).map(|i| format!("out{}", i)).collect();
    let use_min_utxo = match cfg.force_min_utxo {
        Some(b) => b,
        None => matches!(cfg.profile, Profile::Fee | Profile::Rich) && t.chance(1, 3),
    };
    let named: Vec<String> = if use_min_utxo { out_names.clone() } else { vec![] };

    let nin = match cfg.profile {
        Profile::Selection => 1 + t.weighted(&[4, 3, 2, 1]),
        Profile::Fee => 1 + t.weighted(&[6, 2, 1]),
        _ => 1 + t.weighted(&[5, 3, 1]),
    };
    // a transaction either reads input datums or uses the ten-case variant type in redeemers, not
    // both: lowering a property access formats the analysed operand - and through it the whole
    // transaction with every variant case - eagerly for an error message (`ok_or(format!(..))`),
    // which costs 10-40 s per program; a front-end cost outside the claimed properties
    let datum_tx = cfg.profile == Profile::Rich && t.chance(1, if cfg.datum_bias { 1 } else { 3 });
    // overlapping queries: usually the same party for every block
    let common_from = t.index(np);
    let mut regular_input_named_collateral = false;
    for i in 0..nin {
        let from = if t.chance(1, 5) { t.index(np) } else { common_from };
        let has_from = !t.chance(1, 6);
        let has_ref = t.chance(1, 5) || !has_from;
        let ref_param = if has_ref {
            let n = format!("r{}", params.len());
            params.push((n.clone(), Ty::UtxoRef));
            Some(n)
        } else {
            None
        };
        let prev_name = tx.inputs.last().map(|x| x.name.clone());
        let min = gen_min(t, cfg, p, &mut params, &named, prev_name.as_deref());
        let datum_is = datum_tx && t.chance(1, 2);
        let datum_int = datum_is && t.chance(1, 3);
        if datum_is && !datum_int {
            p.has_rec = true;
        }
        let has_redeemer = cfg.profile == Profile::Rich && t.chance(1, 6);
        // not on inputs whose datum is read: lowering a property access formats the whole analysed
        // input block (its redeemer's variant type, case by case) for an error message it rarely
        // needs, which takes tens of seconds for a ten-case type - a front-end cost, not a subject here
        let rcase = redeemer_case(t, p, has_redeemer && !datum_tx);
        tx.inputs.push(InputSpec {
            // blocks are resolved in name order, and the collateral query is always called
            // "collateral": names sort before and after it
            // (no name that a parameter could also get: parameters are `<hint><n>` with hints such as a, b, q)
            name: if i == nin - 1 && t.draw(10) == 9 {
                // tx3 has no reserved words: a regular input may be called `collateral` (the resolver keys
                // its queries by name; the collateral *block* is not declared in such a transaction)
                regular_input_named_collateral = true;
                "collateral".to_string()
            } else {
                format!("{}{}", *t.pick(&["in", "ax", "src", "zed", "bx"]), i)
            },
            many: t.chance(1, 3),
            from: if has_from { Some(from) } else { None },
            ref_param,
            min,
            redeemer: has_redeemer,
            redeemer_case: rcase,
            datum_is,
            datum_int,
        });
    }
    if !regular_input_named_collateral && t.chance(1, 5) {
        let min = Some(Amount(vec![(false, Term::Ada(small_q(t, &mut params, "c")))]));
        // the collateral may be pinned to a reference too
        let ref_param = if t.chance(1, 5) {
            let n = format!("r{}", params.len());
            params.push((n.clone(), Ty::UtxoRef));
            Some(n)
        } else {
            None
        };
        tx.collateral = Some(InputSpec {
            name: "collateral".into(),
            many: false,
            from: Some(common_from),
            ref_param,
            min,
            redeemer: false,
            redeemer_case: None,
            datum_is: false,
            datum_int: false,
        });
    }
    if cfg.profile == Profile::Rich && t.chance(1, 6) {
        let n = format!("r{}", params.len());
        params.push((n.clone(), Ty::UtxoRef));
        tx.reference = Some(n);
    }

    // mints / burns
    if !p.tokens.is_empty() {
        let nm = t.weighted(&[6, 2, 1]);
        for _ in 0..nm {
            let tok = t.index(p.tokens.len());
            let q = small_mint_q(t, &mut params);
            let has_redeemer = t.chance(1, 3);
            let rcase = redeemer_case(t, p, has_redeemer && cfg.profile == Profile::Rich && !datum_tx);
            tx.mints.push(MintSpec {
                tok,
                q,
                redeemer: has_redeemer,
                redeemer_case: rcase,
            });
        }
        let nb = t.weighted(&[8, 2]);
        for _ in 0..nb {
            // a burn may cancel a mint exactly
            if !tx.mints.is_empty() && t.chance(1, 2) {
                let m = tx.mints[0].clone();
                tx.burns.push(MintSpec {
                    tok: m.tok,
                    q: m.q.clone(),
                    redeemer: false,
                    redeemer_case: None,
                });
            } else {
                let tok = t.index(p.tokens.len());
                let q = small_mint_q(t, &mut params);
                tx.burns.push(MintSpec {
                    tok,
                    q,
                    redeemer: false,
                    redeemer_case: None,
                });
            }
        }
    }

    // directives that move value
    let mut withdrawn: Vec<Q> = vec![];
    let mut donated: Vec<Q> = vec![];
    let mut published: Vec<Q> = vec![];
    if cfg.profile == Profile::Rich || cfg.profile == Profile::Boundary {
        if t.chance(1, if cfg.rich_directives { 2 } else { 6 }) {
            let q = small_q(t, &mut params, "w");
            withdrawn.push(q.clone());
            tx.directives.push(Directive::Withdrawal {
                from: t.index(np),
                amount: q,
                redeemer: t.chance(1, 2),
                compound: if t.chance(1, 3) {
                    let z = format!("zz{}", params.len());
                    params.push((z.clone(), Ty::Int));
                    Some(z)
                } else {
                    None
                },
            });
        }
        if t.chance(1, 8) {
            let q = small_q(t, &mut params, "d");
            donated.push(q.clone());
            let z = if t.chance(1, 3) {
                let z = format!("zz{}", params.len());
                params.push((z.clone(), Ty::Int));
                Some(z)
            } else {
                None
            };
            tx.directives.push(Directive::Donation(q, z));
        }
    }
    if cfg.profile == Profile::Rich {
        let (wn, wd) = if cfg.rich_directives { (1, 2) } else { (1, 8) };
        if t.chance(wn, wd) {
            // one to four witnesses, distinct scripts, usually one language
            let version = *t.pick(&[3u8, 2, 1]);
            let n = 1 + t.weighted(&[4, 2, 1, 1]);
            for k in 0..n {
                let mut script = hex::decode("5101010023259800a518a4d136564004ae69").unwrap();
                script[5] = script[5].wrapping_add(k as u8 * 37);
                if t.chance(1, 10) {
                    // a script of realistic size (kilobytes), not a toy one
                    let len = *t.pick(&[5000usize, 4096, 4097, 16_000]);
                    script.resize(len, 0x42 + k as u8);
                }
                // the script may arrive as an argument (a Bytes parameter) instead of a literal
                let script_param = if t.chance(1, 4) {
                    let name = format!("ws{}", params.len());
                    params.push((name.clone(), Ty::Bytes));
                    Some(name)
                } else {
                    None
                };
                // a version the directive does not know (0 is what `publish` calls a native script, 4 is
                // nothing yet), possibly over bytes that are a well-formed native script
                let odd = t.draw(12) == 11;
                let (version_k, script) = if odd { (*t.pick(&[0u8, 4]), if t.chance(2, 3) { native_script(t.draw(6) as u8) } else { script }) } else { (if t.chance(1, 6) { *t.pick(&[3u8, 2, 1]) } else { version }, script) };
                // the attached script may be the minting policy of one of the program's tokens: the policy
                // id is then the script's hash (blake2b-224 of language tag || script); other transactions
                // of the program mint under that policy with or without carrying the script themselves
                if !odd && script_param.is_none() && !p.tokens.is_empty() && (1..=3).contains(&version_k) && t.chance(1, 3) {
                    let mut pre = vec![version_k];
                    pre.extend_from_slice(&script);
                    let tok = t.index(p.tokens.len());
                    p.tokens[tok].policy = crate::txread::blake2b224(&pre);
                }
                tx.directives.push(Directive::PlutusWitness {
                    version: version_k,
                    script,
                    script_param: if odd { None } else { script_param },
                });
            }
        }
        if t.chance(1, 10) {
            let k = t.draw(8) as u8;
            tx.directives.push(Directive::NativeWitness(k));
            // the attached native script may be the minting policy of a token of this program: its
            // policy id is then the script's hash (blake2b-224 of 0x00 || script), not a free choice
            if !tx.mints.is_empty() && t.chance(1, 2) {
                let mut pre = vec![0u8];
                pre.extend(native_script(k));
                let tok = tx.mints[0].tok;
                p.tokens[tok].policy = crate::txread::blake2b224(&pre);
            }
        }
        if t.chance(wn, wd + 2) && p.parties.iter().all(|x| x.addr.len() == 57) {
            tx.directives.push(Directive::VoteDeleg {
                // a key hash of 28 bytes; its first byte may look like the header of another id form
                drep: {
                    let first = *t.pick(&[0x77u8, 0x22, 0x23, 0x00, 0xFF]);
                    let len = *t.pick(&[28usize, 28, 28, 29, 27]);
                    let mut d = vec![0x77u8; len];
                    d[0] = first;
                    d
                },
                stake: t.index(np),
            });
        }
        if t.chance(wn, wd + 1) {
            let q = Q::Lit(*t.pick(&[2_000_000i128, 1_500_000, 3_000_000]));
            published.push(q.clone());
            tx.directives.push(Directive::Publish {
                to: t.index(np),
                amount: q,
                version: *t.pick(&[Some(3u8), None, Some(2), Some(1)]),
            });
        }
    }

    // outputs: all but the last take fixed amounts; the last one balances
    let mut spent: Vec<(bool, Term)> = vec![];
    for i in 0..nout - 1 {
        let mut terms: Vec<(bool, Term)> = vec![];
        let mut zero_amount = false;
        let mut fee_tip = false;
        if t.chance(1, if cfg.optional_bias { 5 } else { 12 }) {
            // `output? tip { amount: fees }`: holds nothing in the fee-less first round and is dropped
            // there, exists from the second round on - the body changes shape between rounds
            terms.push((false, Term::Fees));
            fee_tip = true;
        } else if cfg.optional_bias && t.chance(1, 3) {
            // an amount that evaluates to nothing: an optional output written like this is dropped
            terms.push((false, Term::Ada(Q::Lit(0))));
            zero_amount = true;
        } else if use_min_utxo && t.chance(1, 2) {
            // usually the output's own size, sometimes another output's (legal: min_utxo(<any output>))
            let j = if cfg.optional_bias && t.chance(1, 2) { t.index(nout) } else { i };
            terms.push((false, Term::MinUtxo(out_names[j].clone())));
        } else if cfg.profile != Profile::Selection && t.chance(1, 8) {
            // the amount is written once under `locals` and used by name
            let mut la = vec![(false, Term::Ada(small_q(t, &mut params, "a")))];
            if !p.tokens.is_empty() && t.chance(1, 2) {
                let tok = t.index(p.tokens.len());
                la.push((false, Term::Tok(tok, small_q_tok(t, &mut params))));
            }
            let name = format!("lv{}", tx.locals.len());
            tx.locals.push((name.clone(), Amount(la.clone())));
            terms.push((false, Term::Local(name, Box::new(Amount(la)))));
        } else if tx.inputs.iter().any(|x| x.datum_is && !x.datum_int && !x.many) && t.chance(1, 4) {
            // a quantity read from the datum of an input
            let src = tx.inputs.iter().find(|x| x.datum_is && !x.datum_int && !x.many).unwrap().name.clone();
            terms.push((false, Term::AdaField(src)));
        } else if !p.env.is_empty() && t.chance(1, 2) {
            let e = p.env[t.index(p.env.len())].0.clone();
            terms.push((false, Term::Ada(Q::Param(e))));
        } else {
            terms.push((false, Term::Ada(small_q(t, &mut params, "a"))));
        }
        if !zero_amount && !fee_tip && !p.tokens.is_empty() && t.chance(1, 3) {
            let tok = t.index(p.tokens.len());
            if cfg.profile != Profile::Selection && t.chance(1, 4) {
                let name = format!("nm{}x{}", tok, params.len());
                params.push((name.clone(), Ty::Bytes));
                terms.push((false, Term::AnyTok(tok, name, small_q_tok(t, &mut params))));
                if t.chance(1, 2) {
                    // a second asset of the same policy whose name is another argument: two classes that
                    // are indistinguishable until the arguments are applied
                    let name2 = format!("nm{}x{}", tok, params.len());
                    params.push((name2.clone(), Ty::Bytes));
                    terms.push((false, Term::AnyTok(tok, name2, small_q_tok(t, &mut params))));
                }
            } else {
                terms.push((false, Term::Tok(tok, small_q_tok(t, &mut params))));
            }
        }
        let datum = gen_datum(t, cfg, p, &tx, &mut params);
        for x in &terms {
            spent.push((true, x.1.clone()));
        }
        let to_policy = if !p.policies.is_empty() && t.chance(1, 2) { Some(t.index(p.policies.len())) } else { None };
        tx.outputs.push(OutputSpec {
            name: if use_min_utxo || t.chance(1, 3) { Some(out_names[i].clone()) } else { None },
            optional: (zero_amount || fee_tip || t.chance(1, if cfg.optional_bias { 2 } else { 8 })) && datum.is_none(),
            to: t.index(np),
            to_policy,
            amount: Amount(terms),
            datum,
        });
    }
    // change
    let mut change: Vec<(bool, Term)> = vec![];
    for i in &tx.inputs {
        change.push((false, Term::Input(i.name.clone())));
    }
    for m in &tx.mints {
        change.push((false, Term::Tok(m.tok, m.q.clone())));
    }
    for q in &withdrawn {
        change.push((false, Term::Ada(q.clone())));
    }
    for b in &tx.burns {
        change.push((true, Term::Tok(b.tok, b.q.clone())));
    }
    change.extend(spent);
    for q in donated.iter().chain(published.iter()) {
        change.push((true, Term::Ada(q.clone())));
    }
    // now and then a long ledger-style expression: many small additions and deductions that cancel
    // (each binary operator is one more level of nesting in the lowered IR)
    if t.draw(25) == 24 {
        let k = *t.pick(&[10usize, 18, 30]);
        for _ in 0..k {
            change.push((false, Term::Ada(Q::Lit(1))));
            change.push((true, Term::Ada(Q::Lit(1))));
        }
    }
    // `fees` position varies (left-assoc chains)
    let pos = 1 + t.index(change.len());
    change.insert(pos.max(tx.inputs.len()), (true, Term::Fees));
    let datum = gen_datum(t, cfg, p, &tx, &mut params);
    tx.outputs.push(OutputSpec {
        name: if use_min_utxo { Some(out_names[nout - 1].clone()) } else { None },
        optional: false,
        to: common_from,
        to_policy: None,
        amount: Amount(change),
        datum,
    });

    if cfg.profile == Profile::Rich || cfg.profile == Profile::Boundary {
        if t.chance(1, 4) {
            let since = if t.chance(1, 2) { Some(gen_slot(t, &mut params)) } else { None };
            let until = if since.is_none() || t.chance(1, 2) { Some(gen_slot(t, &mut params)) } else { None };
            tx.validity = Some((since, until));
        }
        if t.chance(1, 5) {
            let n = 1 + t.index(2);
            for _ in 0..n {
                let x = t.index(np);
                if !tx.signers.contains(&x) {
                    tx.signers.push(x);
                }
            }
            if t.chance(1, 3) {
                let name = format!("kb{}", params.len());
                params.push((name.clone(), Ty::Bytes));
                tx.signer_params.push(name);
            }
        }
        // a native script over the parties' own keys usually comes with those parties as signers
        if tx.directives.iter().any(|d| matches!(d, Directive::NativeWitness(6) | Directive::NativeWitness(7))) && np >= 2 && t.chance(2, 3) {
            tx.signers = if t.chance(1, 2) { vec![0, 1] } else { vec![1, 0] };
        }
        if t.chance(1, 4) {
            let n = 1 + t.index(3);
            for i in 0..n {
                let v = match t.draw(5) {
                    3 => MetaVal::TimeSnap(1_757_611_408_000 + t.draw(200_000) as i128),
                    4 => MetaVal::LongText(
                        *t.pick(&[63usize, 62, 64, 61, 30]),
                        t.pick(&["ña (ref 77)", "日本語のメモ", "é", "😀😀", "plain ascii tail", "x"]).to_string(),
                    ),
                    0 => MetaVal::Str(format!("meta{}", i)),
                    1 => MetaVal::Int(small_q(t, &mut params, "m")),
                    _ => {
                        let name = format!("mb{}", params.len());
                        params.push((name.clone(), Ty::Bytes));
                        MetaVal::BytesParam(name)
                    }
                };
                tx.metadata.push((1 + i as u64 * 7, v));
            }
        }
    }
    tx.params = params;
    // one transaction in four is written with its blocks in another order
    tx.layout = if t.chance(1, 4) { 1 + t.draw(1 << 20) } else { 0 };
    tx
}

/// which case of `Act` a redeemer uses (None: the unit `()`); marks the program as declaring the type
fn redeemer_case(t: &mut Tape, p: &mut Program, has: bool) -> Option<u8> {
    if has && t.chance(1, 2) {
        p.has_act = true;
        // all ten alternatives, the last ones (beyond the compact constructor tags) on purpose
        Some(*t.pick(&[7u8, 0, 6, 9, 5, 8, 1]))
    } else {
        None
    }
}

fn small_mint_q(t: &mut Tape, params: &mut Vec<(String, Ty)>) -> Q {
    if t.chance(1, 3) {
        let name = format!("k{}", params.len());
        params.push((name.clone(), Ty::Int));
        Q::Param(name)
    } else {
        Q::Lit(*t.pick(&[1i128, 5, 100, 1_000_000]))
    }
}

fn small_q_tok(t: &mut Tape, params: &mut Vec<(String, Ty)>) -> Q {
    if t.chance(1, 3) {
        let name = format!("n{}", params.len());
        params.push((name.clone(), Ty::Int));
        Q::Param(name)
    } else {
        Q::Lit(*t.pick(&[1i128, 2, 5, 0]))
    }
}

fn gen_slot(t: &mut Tape, params: &mut Vec<(String, Ty)>) -> SlotExpr {
    match t.draw(5) {
        4 => {
            if t.chance(1, 2) {
                let name = format!("tm{}", params.len());
                params.push((name.clone(), Ty::Int));
                SlotExpr::FromTime(Q::Param(name))
            } else {
                SlotExpr::FromTime(Q::Lit(*t.pick(&[1_757_611_500_000i128, 0, 1_757_611_408, 1_655_000_000_000, 1_757_611_408_000])))
            }
        }
        0 => SlotExpr::TipPlus(t.draw(3) as i128 * 50),
        1 => {
            let name = format!("s{}", params.len());
            params.push((name.clone(), Ty::Int));
            SlotExpr::Q(Q::Param(name))
        }
        2 => SlotExpr::Q(Q::Lit(*t.pick(&[100i128, 0, 4_294_967_296]))),
        _ => SlotExpr::RoundTrip(t.draw(3) as i128 * 10),
    }
}

fn gen_datum(t: &mut Tape, cfg: &GenCfg, p: &mut Program, tx: &TxSpec, params: &mut Vec<(String, Ty)>) -> Option<DatumSpec> {
    if cfg.profile != Profile::Rich && cfg.profile != Profile::Boundary {
        return None;
    }
    if !t.chance(1, if cfg.datum_bias { 2 } else { 5 }) {
        return None;
    }
    let with_datum: Vec<&InputSpec> = tx.inputs.iter().filter(|i| i.datum_is).collect();
    if !with_datum.is_empty() && t.chance(2, 3) {
        let chosen = with_datum[t.index(with_datum.len())];
        let i = chosen.name.clone();
        if chosen.datum_int {
            return Some(DatumSpec::Whole(i, t.chance(1, 2), small_q(t, params, "x")));
        }
        p.has_rec = true;
        if t.chance(1, 6) {
            p.has_recm = true;
            let mut key = |t: &mut Tape, params: &mut Vec<(String, Ty)>| {
                if t.chance(2, 3) {
                    let name = format!("mk{}", params.len());
                    params.push((name.clone(), Ty::Int));
                    Q::Param(name)
                } else {
                    Q::Lit(*t.pick(&[7i128, 3]))
                }
            };
            let k1 = key(t, params);
            let k2 = key(t, params);
            return Some(DatumSpec::MapLit(i, k1, k2));
        }
        match t.draw(4) {
            0 => Some(DatumSpec::Spread(small_q(t, params, "x"), i)),
            1 => Some(DatumSpec::FromInput(i, small_q(t, params, "x"))),
            3 => Some(DatumSpec::FromInputSub(i, small_q(t, params, "x"))),
            _ => {
                // index into the list field: a literal or an Int parameter
                let q = if t.chance(1, 2) {
                    let name = format!("i{}", params.len());
                    params.push((name.clone(), Ty::Int));
                    Q::Param(name)
                } else {
                    Q::Lit(t.draw(3) as i128)
                };
                Some(DatumSpec::Index(i, q))
            }
        }
    } else if t.chance(1, 4) {
        p.has_misc = true;
        // (boundary-heavy worlds lean towards the shapes that carry a quantity)
        let shape = if cfg.profile == Profile::Boundary { *t.pick(&[4u8, 0, 4, 2, 3, 1]) } else { t.draw(5) as u8 };
        let q = small_q(t, params, "x");
        let bytes = if t.chance(1, 2) {
            let name = format!("db{}", params.len());
            params.push((name.clone(), Ty::Bytes));
            Some(name)
        } else {
            None
        };
        let flag = if t.chance(1, 2) {
            let name = format!("fl{}", params.len());
            params.push((name.clone(), Ty::Bool));
            Some(name)
        } else {
            None
        };
        Some(DatumSpec::Misc { shape, q, bytes, flag })
    } else {
        p.has_rec = true;
        Some(DatumSpec::Rec(small_q(t, params, "x")))
    }
}

// ---------------------------------------------------------------- ledger & args

#[derive(Clone, Debug, PartialEq)]
pub enum AmountDist {
    Small,
    Comfortable,
    Boundary,
    Tight,
    /// around coins_per_utxo_byte x (plausible output sizes): where a min_utxo(..) threshold
    /// computed from one body or another decides whether a UTxO covers it
    Threshold(u64, u64),
    /// many UTxOs of almost the same value (change of one faucet, a batch payout): differences of
    /// a few units of the selector's logarithmic scale, i.e. near-ties that are not ties
    Cluster(i128),
    /// a wallet of dust (1-3 ADA pieces) with one or two large UTxOs in it: more candidates than the
    /// selection window, and a threshold only the large ones cover
    DustAndFew,
}

pub struct LedgerCfg {
    pub size: usize,
    pub dist: AmountDist,
    pub ties: bool,
    /// every UTxO gets a different lovelace amount (no equal-distance candidates, hence no
    /// hash-order tie-breaking in coin selection)
    pub distinct: bool,
    /// C14 only: some UTxOs carry a datum that is an open expression (the datum of an input whose
    /// query the UTxO itself satisfies, or any expression tree) - `arbitrary UTxO contents`
    pub hostile_datums: bool,
}

pub fn draw_lovelace(t: &mut Tape, dist: &AmountDist) -> i128 {
    match dist {
        AmountDist::Small => t.draw(6) as i128 * 1_000_000,
        AmountDist::Comfortable => 50_000_000 + t.draw(950) as i128 * 1_000_000,
        AmountDist::Tight => *t.pick(&[2_000_000i128, 1_000_000, 3_000_000, 5_000_000, 2_200_000, 10_000_000, 12_000_000]),
        AmountDist::DustAndFew => {
            if t.draw(40) == 39 {
                80_000_000 + t.draw(20) as i128 * 1_000_000
            } else {
                1_000_000 + t.draw(2_000) as i128 * 1_000
            }
        }
        AmountDist::Cluster(base) => {
            // one unit of the coin selector's log scale is a relative step of about 2e-8
            let unit = (*base / 48_000_000).max(1);
            *base + t.draw(48) as i128 * unit + t.draw(3) as i128
        }
        AmountDist::Threshold(cpb, center) => {
            // every UTxO of the ledger within a few bytes' worth of one size: whether the best
            // candidate covers a threshold then hinges on which body sized it
            let size = *center as i128 - 12 + t.draw(25) as i128;
            *cpb as i128 * size + t.draw(40) as i128 * (*cpb as i128 / 41)
        }
        AmountDist::Boundary => {
            let base = *t.pick(&[
                1i128 << 32,
                1 << 16,
                1 << 8,
                24,
                1 << 31,
                (1 << 32) + 2_000_000,
                (1 << 32) + 400_000,
                1 << 62,
                1 << 63,
                (1u128 << 64) as i128 - 1,
            ]);
            let d = t.draw(4001) as i128 - 2000;
            (base + d).max(0).min(u64::MAX as i128)
        }
    }
}

pub fn gen_ledger(t: &mut Tape, w: &mut crate::world::World, p: &Program, cfg: &LedgerCfg) {
    let mut tie_val: Option<Value> = None;
    // "split" ledgers keep each token in its own UTxOs, so that only a set can cover a two-token query
    let split = p.tokens.len() > 1 && t.chance(1, 2);
    for _ in 0..cfg.size {
        let owner = if t.chance(1, 6) { t.index(p.parties.len()) } else { 0 };
        let mut v = Value::new();
        let mut l = draw_lovelace(t, &cfg.dist);
        if cfg.distinct {
            l += 1 + (w.chain.utxos.len() as i128 + 1) * 1013;
        }
        if l != 0 {
            v.insert(None, l);
        }
        if !p.tokens.is_empty() && t.chance(1, if split { 2 } else { 3 }) {
            let k = t.index(p.tokens.len());
            let amt = match cfg.dist {
                AmountDist::Boundary => *t.pick(&[1i128, 5, 1 << 32, 1 << 62, i64::MAX as i128, u64::MAX as i128]),
                _ => 1 + t.draw(8) as i128,
            };
            v.insert(p.tokens[k].key(), amt);
            if p.tokens.len() > 1 && !split && t.chance(1, 4) {
                let k2 = (k + 1) % p.tokens.len();
                v.insert(p.tokens[k2].key(), 1 + t.draw(8) as i128);
            }
        }
        if cfg.ties {
            if let Some(tv) = &tie_val {
                if t.chance(1, 2) {
                    v = tv.clone();
                }
            }
            tie_val = Some(v.clone());
        }
        let any_int = p.txs.iter().any(|tx| tx.inputs.iter().any(|i| i.datum_int));
        let datum = if any_int && t.chance(1, 3) {
            Some(tir::Expression::Number(t.draw(1000) as i128))
        } else if p.has_rec && t.chance(1, 2) {
            Some(tir::Expression::Struct(tir::StructExpr {
                constructor: 0,
                fields: vec![
                    tir::Expression::Number(if t.chance(1, 3) { *t.pick(&[7i128, 3]) } else { t.draw(1000) as i128 }),
                    tir::Expression::Bytes(vec![0xCA, 0xFE]),
                    tir::Expression::List(vec![
                        tir::Expression::Number(10),
                        tir::Expression::Number(20),
                        tir::Expression::Number(30),
                    ]),
                ],
            }))
        } else {
            None
        };
        // the same payment key under the other address form (enterprise <-> base): another address
        let addr = if t.chance(1, 10) {
            let a = &p.parties[owner].addr;
            if a.len() == 29 {
                let mut b = vec![a[0] & 0x0f];
                b.extend_from_slice(&a[1..29]);
                b.extend(std::iter::repeat(0x5E).take(28));
                b
            } else {
                let mut b = vec![0x60 | (a[0] & 0x0f)];
                b.extend_from_slice(&a[1..29]);
                b
            }
        } else {
            p.parties[owner].addr.clone()
        };
        let k = w.chain.create(addr, v, datum);
        if t.chance(1, 10) {
            let len = *t.pick(&[600usize, 30, 2000]);
            if let Some(u) = w.chain.utxos.get_mut(&k) {
                u.script = Some(tir::Expression::Bytes(vec![0x4D; len]));
            }
        }
    }
    if cfg.hostile_datums {
        let names: Vec<String> = p.txs.iter().flat_map(|tx| tx.inputs.iter().map(|i| i.name.to_lowercase())).chain(std::iter::once("source".to_string())).collect();
        let keys: Vec<RefKey> = w.chain.utxos.keys().cloned().collect();
        for k in keys {
            if !t.chance(2, 3) {
                continue;
            }
            let addr = w.chain.utxos[&k].address.clone();
            let d = if t.chance(2, 3) {
                let q = tir::InputQuery {
                    address: tir::Expression::Address(addr),
                    min_amount: tir::Expression::None,
                    r#ref: tir::Expression::None,
                    many: false,
                    collateral: false,
                };
                let name = names[t.index(names.len())].clone();
                tir::Expression::EvalCoerce(Box::new(tir::Coerce::IntoDatum(tir::Expression::EvalParam(Box::new(tir::Param::ExpectInput(name, q))))))
            } else {
                let mut g = crate::gen_tir::TirGen {
                    t: &mut *t,
                    params: vec![],
                    queries: Default::default(),
                    inputs: vec![],
                    closed: false,
                };
                g.expr(2)
            };
            if let Some(u) = w.chain.utxos.get_mut(&k) {
                u.datum = Some(d);
            }
        }
    }
    w.addr_pool = p.parties.iter().map(|x| x.addr.clone()).collect();
    let mut pool: Vec<Value> = vec![];
    for amt in [2_000_000i128, 50_000_000, 1_000_000] {
        let mut v = Value::new();
        v.insert(None, amt);
        pool.push(v.clone());
        for tk in &p.tokens {
            let mut v2 = v.clone();
            v2.insert(tk.key(), 3);
            pool.push(v2);
        }
    }
    w.value_pool = pool;
}

pub fn int_boundary(t: &mut Tape) -> i128 {
    *t.pick(&[
        0i128,
        -1,
        1,
        1 << 31,
        -(1 << 31),
        1 << 32,
        1 << 63,
        -(1 << 63),
        (1 << 63) - 1,
        1 << 64,
        -(1 << 64),
        (1 << 64) + 1,
        i128::MAX,
        i128::MIN,
        (1 << 64) - 1,
        -(1 << 64) - 1,
        -(1 << 64) - 256,
        1 << 100,
        -(1 << 100),
        (1 << 63) + 1,
    ])
}

#[derive(Clone, Copy, Debug, PartialEq)]
pub enum ArgDist {
    Small,
    Boundary,
}

pub struct ArgPlan {
    pub args: ArgMap,
    pub shown: BTreeMap<String, String>,
    /// UtxoRef params: what kind of ref was handed in
    pub ref_kinds: BTreeMap<String, &'static str>,
}

pub fn gen_args(t: &mut Tape, p: &Program, tx: &TxSpec, chain: &SimChain, dist: ArgDist) -> ArgPlan {
    let mut args = ArgMap::new();
    let mut shown = BTreeMap::new();
    let mut ref_kinds = BTreeMap::new();
    for party in &p.parties {
        let mut a = party.addr.clone();
        // type-correct addresses of kinds a template seldom meets: another network id in the header,
        // a pointer address, a Byron (bootstrap) address - under the boundary distribution only
        if matches!(dist, ArgDist::Boundary) && t.draw(8) == 7 {
            a = match t.draw(4) {
                0 => {
                    let mut x = a.clone();
                    x[0] = (x[0] & 0xf0) | 0x02;
                    x
                }
                1 => {
                    let mut x = vec![0x6Fu8];
                    x.extend(std::iter::repeat(0xA7).take(28));
                    x
                }
                2 => {
                    // pointer address: header 0x40 | net, key hash, then three variable-length naturals
                    let mut x = vec![0x40u8];
                    x.extend(std::iter::repeat(0xA8).take(28));
                    x.extend([0x81, 0x01, 0x02, 0x03]);
                    x
                }
                // a Byron main-net address (Ae2tdPwUPEZ...), as raw bytes
                _ => hex::decode("82d818582183581c2f5b0e1c0e0f7e1f1ca42dc1a8c4c0e5e0c9b4d4f3a0b7b8d9e0f1a2a0001a9026da5b").unwrap_or(a.clone()),
            };
            shown.insert(party.name.to_lowercase(), format!("0x{} (unusual address kind)", hex::encode(&a)));
        }
        args.insert(party.name.to_lowercase(), ArgValue::Address(a));
    }
    for (n, ty) in tx.params.iter().chain(p.env.iter()) {
        let key = n.to_lowercase();
        match ty {
            Ty::Int if n.starts_with("zz") => {
                // the filler of a compound directive field: always nothing
                shown.insert(key.clone(), "0".to_string());
                args.insert(key, ArgValue::Int(0));
            }
            Ty::Int => {
                let v = match dist {
                    ArgDist::Small => {
                        if n.starts_with('i') {
                            *t.pick(&[1i128, 0, 2, 3])
                        } else if n.starts_with("mk") {
                            // map keys: a small domain, so that keys bound at different stages coincide
                            *t.pick(&[7i128, 7, 3])
                        } else if n.starts_with("tm") {
                            // a time: after the cursor, at it, in seconds instead of milliseconds, zero, long ago
                            *t.pick(&[1_757_611_999_000i128, 1_757_611_408_000, 1_757_611_408, 0, 1_600_000_000_000, 1_655_937_266_500])
                        } else if n.starts_with('s') {
                            *t.pick(&[1000i128, 0, 50, 1 << 20])
                        } else if n.starts_with('n') || n.starts_with('k') {
                            *t.pick(&[1i128, 2, 3, 5, 0])
                        } else if n.starts_with('q') && t.chance(1, 8) {
                            // a threshold just below the largest single UTxO anybody holds: in a wallet of
                            // dust only that one (or a very large set) covers it
                            let big: i128 = chain.utxos.values().map(|u| u.value.get(&None).copied().unwrap_or(0)).max().unwrap_or(0);
                            (big - 1_000_000 - t.draw(3) as i128 * 500_000).max(1)
                        } else if n.starts_with('q') && t.chance(1, 8) {
                            // a threshold that needs most of what the best-funded party holds: only a
                            // large set of UTxOs covers it
                            let mut best: i128 = 0;
                            for party in &p.parties {
                                let tot: i128 = chain.utxos.values().filter(|u| u.address == party.addr).map(|u| u.value.get(&None).copied().unwrap_or(0)).sum();
                                best = best.max(tot);
                            }
                            let k = 3 + t.draw(6) as i128;
                            (best / 8 * k - t.draw(3) as i128 * 100_000).max(1)
                        } else {
                            *t.pick(&[2_000_000i128, 1_000_000, 0, 1, 3_000_000, 5_000_000, 1_500_000, 10_000_000])
                        }
                    }
                    ArgDist::Boundary => {
                        if t.chance(1, 2) {
                            int_boundary(t)
                        } else {
                            *t.pick(&[2_000_000i128, 1, 5, 1_000_000])
                        }
                    }
                };
                shown.insert(key.clone(), format!("{}", v));
                args.insert(key, ArgValue::Int(v));
            }
            Ty::Bytes if n.starts_with("ws") => {
                let len = *t.pick(&[18usize, 24, 18, 40]);
                let b = t.bytes(len);
                shown.insert(key.clone(), format!("0x{}", hex::encode(&b)));
                args.insert(key, ArgValue::Bytes(b));
            }
            Ty::Bytes if n.starts_with("nm") => {
                // an asset name: usually the declared name of that token, sometimes empty / other
                let tok: usize = n[2..].split('x').next().and_then(|x| x.parse().ok()).unwrap_or(0);
                let b = match t.weighted(&[5, 1, 1, 1]) {
                    0 => p.tokens.get(tok).map(|x| x.name.clone()).unwrap_or_default(),
                    1 => vec![],
                    2 => b"OTHER".to_vec(),
                    _ => {
                        let len = *t.pick(&[32usize, 1, 33, 64]);
                        t.bytes(len)
                    }
                };
                shown.insert(key.clone(), format!("0x{}", hex::encode(&b)));
                args.insert(key, ArgValue::Bytes(b));
            }
            Ty::Bytes => {
                let len = match dist {
                    ArgDist::Small => *t.pick(&[4usize, 0, 28, 32]),
                    ArgDist::Boundary => *t.pick(&[4usize, 0, 1, 27, 28, 29, 32, 64, 65, 4097]),
                };
                let b = t.bytes(len);
                shown.insert(key.clone(), format!("0x{}", hex::encode(&b)));
                args.insert(key, ArgValue::Bytes(b));
            }
            Ty::Bool => {
                let b = t.chance(1, 2);
                shown.insert(key.clone(), format!("{}", b));
                args.insert(key, ArgValue::Bool(b));
            }
            Ty::UtxoRef if !ref_kinds.is_empty() && t.draw(4) == 3 => {
                // the same outpoint as another reference argument of this request (two blocks pinning
                // one UTxO, a reference block naming what an input spends)
                let prev: Vec<String> = ref_kinds.keys().cloned().collect();
                let from = prev[t.index(prev.len())].clone();
                let v = args.get(&from).cloned().unwrap();
                shown.insert(key.clone(), format!("{} (same as {from})", shown.get(&from).cloned().unwrap_or_default()));
                ref_kinds.insert(key.clone(), "same-as-another");
                args.insert(key, v);
            }
            Ty::UtxoRef => {
                // own (party 0) / foreign / dangling
                let kind = t.weighted(&[4, 2, 1]);
                let own: Vec<&RefKey> = chain
                    .utxos
                    .iter()
                    .filter(|(_, u)| u.address == p.parties[0].addr)
                    .map(|(k, _)| k)
                    .collect();
                let foreign: Vec<&RefKey> = chain
                    .utxos
                    .iter()
                    .filter(|(_, u)| u.address != p.parties[0].addr)
                    .map(|(k, _)| k)
                    .collect();
                let (k, label): (RefKey, &'static str) = match kind {
                    0 if !own.is_empty() => (own[t.index(own.len())].clone(), "own"),
                    1 if !foreign.is_empty() => (foreign[t.index(foreign.len())].clone(), "foreign"),
                    0 | 1 if !chain.utxos.is_empty() => {
                        let all: Vec<&RefKey> = chain.utxos.keys().collect();
                        (all[t.index(all.len())].clone(), "any")
                    }
                    _ => ((vec![0xDD; 32], 7), "dangling"),
                };
                shown.insert(key.clone(), format!("{} ({})", show_ref(&k), label));
                ref_kinds.insert(key.clone(), label);
                args.insert(key, ArgValue::UtxoRef(unrk(&k)));
            }
        }
    }
    ArgPlan {
        args,
        shown,
        ref_kinds,
    }
}
