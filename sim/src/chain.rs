//! SimChain: a small in-memory ledger (the stubbed environment, N1).
//! BTreeMap everywhere: the harness's own iteration orders never depend on
//! hash entropy.

use std::collections::{BTreeMap, BTreeSet};

use tx3_tir::model::assets::{AssetClass, CanonicalAssets};
use tx3_tir::model::core::{Utxo, UtxoRef};
use tx3_tir::model::v1beta0 as tir;

pub type RefKey = (Vec<u8>, u32);

pub fn rk(r: &UtxoRef) -> RefKey {
    (r.txid.clone(), r.index)
}

pub fn unrk(k: &RefKey) -> UtxoRef {
    UtxoRef {
        txid: k.0.clone(),
        index: k.1,
    }
}

pub fn show_ref(k: &RefKey) -> String {
    format!("{}#{}", hex::encode(&k.0[..k.0.len().min(4)]), k.1)
}

/// asset class key with a total order: None = lovelace
pub type ClassKey = Option<(Vec<u8>, Vec<u8>)>;

pub fn class_key(c: &AssetClass) -> ClassKey {
    match c {
        AssetClass::Naked => None,
        AssetClass::Named(n) => Some((vec![], n.clone())),
        AssetClass::Defined(p, n) => Some((p.clone(), n.clone())),
    }
}

pub type Value = BTreeMap<ClassKey, i128>;

pub fn value_of(a: &CanonicalAssets) -> Value {
    let mut v = Value::new();
    for (c, amt) in a.iter() {
        *v.entry(class_key(c)).or_insert(0) += *amt;
    }
    v.retain(|_, x| *x != 0);
    v
}

pub fn value_add(a: &mut Value, b: &Value) {
    for (k, x) in b {
        *a.entry(k.clone()).or_insert(0) += *x;
    }
    a.retain(|_, x| *x != 0);
}

pub fn value_sub(a: &mut Value, b: &Value) {
    for (k, x) in b {
        *a.entry(k.clone()).or_insert(0) -= *x;
    }
    a.retain(|_, x| *x != 0);
}

/// component-wise >= on the classes of `need` with positive amounts
pub fn value_covers(have: &Value, need: &Value) -> bool {
    need.iter()
        .all(|(k, n)| *n <= 0 || have.get(k).copied().unwrap_or(0) >= *n)
}

pub fn show_value(v: &Value) -> String {
    let mut parts = vec![];
    for (k, x) in v {
        match k {
            None => parts.push(format!("{}", x)),
            Some((p, n)) => parts.push(format!(
                "{}.{}:{}",
                hex::encode(&p[..p.len().min(2)]),
                String::from_utf8_lossy(n),
                x
            )),
        }
    }
    format!("[{}]", parts.join(","))
}

pub fn assets_from_value(v: &Value) -> CanonicalAssets {
    let mut out = CanonicalAssets::empty();
    for (k, x) in v {
        let one = match k {
            None => CanonicalAssets::from_naked_amount(*x),
            Some((p, n)) => CanonicalAssets::from_class_and_amount(
                AssetClass::Defined(p.clone(), n.clone()),
                *x,
            ),
        };
        out = out + one;
    }
    out
}

#[derive(Clone, Debug)]
pub struct SimUtxo {
    pub address: Vec<u8>,
    pub value: Value,
    pub datum: Option<tir::Expression>,
    /// a reference script sitting in the UTxO (any UTxO may carry one)
    pub script: Option<tir::Expression>,
}

impl SimUtxo {
    pub fn to_utxo(&self, k: &RefKey) -> Utxo {
        Utxo {
            r#ref: unrk(k),
            address: self.address.clone(),
            assets: assets_from_value(&self.value),
            datum: self.datum.clone(),
            script: self.script.clone(),
        }
    }
}

#[derive(Clone, Debug, Default)]
pub struct SimChain {
    pub utxos: BTreeMap<RefKey, SimUtxo>,
    pub spent: BTreeSet<RefKey>,
    pub tip_slot: u64,
    pub next_txid: u64,
}

impl SimChain {
    pub fn fresh_txid(&mut self) -> Vec<u8> {
        self.next_txid += 1;
        let mut id = vec![0u8; 32];
        // spread the counter so that txids sort in a non-creation order
        let x = crate::tape::mix(0x7478_6964, self.next_txid);
        id[..8].copy_from_slice(&x.to_be_bytes());
        id[24..].copy_from_slice(&self.next_txid.to_be_bytes());
        id
    }

    pub fn create(&mut self, address: Vec<u8>, value: Value, datum: Option<tir::Expression>) -> RefKey {
        let txid = self.fresh_txid();
        let k = (txid, (self.next_txid % 3) as u32);
        self.utxos.insert(
            k.clone(),
            SimUtxo {
                address,
                value,
                datum,
                script: None,
            },
        );
        k
    }

    pub fn spend(&mut self, k: &RefKey) -> bool {
        if self.utxos.remove(k).is_some() {
            self.spent.insert(k.clone());
            true
        } else {
            false
        }
    }

    pub fn by_address(&self, a: &[u8]) -> BTreeSet<RefKey> {
        self.utxos
            .iter()
            .filter(|(_, u)| u.address == a)
            .map(|(k, _)| k.clone())
            .collect()
    }

    pub fn by_asset(&self, p: &[u8], n: &[u8]) -> BTreeSet<RefKey> {
        let key = Some((p.to_vec(), n.to_vec()));
        self.utxos
            .iter()
            .filter(|(_, u)| u.value.get(&key).copied().unwrap_or(0) > 0)
            .map(|(k, _)| k.clone())
            .collect()
    }

    pub fn by_policy(&self, p: &[u8]) -> BTreeSet<RefKey> {
        self.utxos
            .iter()
            .filter(|(_, u)| {
                u.value
                    .iter()
                    .any(|(k, x)| *x > 0 && matches!(k, Some((pp, _)) if pp == p))
            })
            .map(|(k, _)| k.clone())
            .collect()
    }

    pub fn total(&self) -> Value {
        let mut t = Value::new();
        for u in self.utxos.values() {
            value_add(&mut t, &u.value);
        }
        t
    }

    pub fn describe(&self) -> Vec<String> {
        self.utxos
            .iter()
            .map(|(k, u)| {
                format!(
                    "{} @{} {}{}",
                    show_ref(k),
                    hex::encode(&u.address[..u.address.len().min(3)]),
                    show_value(&u.value),
                    if u.datum.is_some() { " +datum" } else { "" }
                )
            })
            .collect()
    }
}
