//! Worlds of the resolver-sim engine for C02, C03, C04, C05, C10 (monitored
//! clauses) and C14.  One world = one generated program, ledger and fault plan,
//! 1-3 resolutions.  Every oracle runs in every world; the caller keeps the
//! violations that belong to the property being checked.

use std::collections::BTreeMap;

use serde_json::json;
use tx3_tir::encoding::AnyTir;
use tx3_tir::model::v1beta0 as tir;
use tx3_tir::reduce::ArgMap;
use tx3_tir::Node as _;

use crate::chain::*;
use crate::compiler::SimCompiler;
use crate::core::{Tier, WorldReport};
use crate::exec::{drive, guarded, RunEnd};
use crate::gen::*;
use crate::rsim::*;
use crate::tape::Tape;
use crate::world::{FaultCfg, SimStore, World, W};

pub fn world(prop: &str, _tier: Tier, world_no: u64, mut tape: Tape) -> WorldReport {
    let hseed = tape.draw(1 << 32);
    let prop = prop.to_string();
    crate::entropy::in_world(hseed, move || {
        let mut rep = WorldReport {
            world: world_no,
            ..Default::default()
        };
        let r = guarded(|| inner(&prop, tape, &mut rep));
        if let Err(p) = r {
            rep.harness_error = Some(format!("harness panic: {} at {}:{}", p.message, p.file, p.line));
        }
        rep
    })
}

fn draw_faults(t: &mut Tape, prop: &str) -> (FaultCfg, &'static str) {
    let mut f = FaultCfg {
        client_timeout: 40,
        ..Default::default()
    };
    let stratum = t.weighted(&[4, 2, 4]);
    match stratum {
        0 => (f, "static"),
        1 => {
            f.lat_max = 1 + t.draw(20);
            f.tick_ns = draw_tick(t);
            (f, "lat")
        }
        _ => {
            f.lat_max = 1 + t.draw(20);
            f.tick_ns = draw_tick(t);
            // most worlds enable one or two kinds
            let n = 1 + t.weighted(&[3, 2, 1]);
            for _ in 0..n {
                match t.draw(if prop == "C14" { 6 } else { 5 }) {
                    0 => {
                        f.err_permille = *t.pick(&[100u64, 30, 300]);
                        if t.chance(1, 2) {
                            f.err_window = Some((0, 5 + t.draw(60)));
                        }
                    }
                    1 => f.err_at_call = Some(1 + t.draw(8)),
                    2 => f.stale_permille = *t.pick(&[300u64, 100, 700]),
                    3 => f.churn_permille = *t.pick(&[300u64, 100, 700]),
                    4 => f.stall_permille = *t.pick(&[100u64, 30]),
                    _ => f.byz_permille = *t.pick(&[300u64, 100, 1000]),
                }
            }
            (f, "faults")
        }
    }
}

/// real time per tick as the code under test would see it on a clock: from a local store answering in
/// microseconds to a remote index that takes seconds per call (a resolution of a few dozen ticks then
/// spans anything from nothing to minutes)
fn draw_tick(t: &mut Tape) -> u64 {
    *t.pick(&[0u64, 1_000, 40_000_000, 700_000_000, 2_500_000_000, 30_000_000_000])
}

fn pick_profile(t: &mut Tape, prop: &str) -> Profile {
    let profs = [Profile::Selection, Profile::Fee, Profile::Rich, Profile::Boundary];
    let w: [u64; 4] = match prop {
        "C03" | "C04" => [7, 1, 1, 0],
        "C05" => [1, 6, 2, 1],
        "C02" => [1, 2, 2, 4],
        "C10" => [1, 1, 6, 1],
        _ => [2, 2, 3, 3],
    };
    profs[t.weighted(&w)]
}

fn inner(prop: &str, mut t: Tape, rep: &mut WorldReport) {
    // ---- swarm
    let profile = pick_profile(&mut t, prop);
    let wide = matches!(prop, "C05" | "C14") || t.chance(1, 4);
    let mut pp = draw_pparams(&mut t, wide);
    pp.mainnet = t.chance(1, 4);
    if (prop == "C14" && t.chance(1, 6)) || (prop == "C10" && t.chance(1, 8)) {
        for v in 0..3 {
            pp.cost_models[v] = t.chance(1, 2);
        }
    }
    let max_rounds = *t.pick(&[3usize, 0, 5, 10, 3, 5, usize::MAX, 1 << 62]);
    let rich_directives = profile == Profile::Rich && t.chance(1, 3);
    let program = gen_program(
        &mut t,
        &GenCfg {
            profile,
            mainnet: pp.mainnet,
            max_txs: 2,
            force_min_utxo: None,
            rich_directives,
            optional_bias: false,
            datum_bias: false,
        },
    );
    let source = program.source();
    if std::env::var("VERIF_DUMP_SOURCE").is_ok() {
        eprintln!("{source}");
    }
    let lowered = match guarded(|| crate::front::lower_all(&source)) {
        Ok(Ok(x)) => x,
        Ok(Err(e)) => {
            rep.harness_error = Some(format!("generator produced a program the front end rejects: {e}\n{source}"));
            return;
        }
        Err(p) => {
            rep.harness_error = Some(format!("front end panicked on generated program: {p:?}\n{source}"));
            return;
        }
    };
    let cluster = t.chance(1, 12);
    let dusty = !cluster && matches!(prop, "C03" | "C04" | "C02" | "C14") && t.draw(12) == 11;
    let ledger_cfg = LedgerCfg {
        size: match if dusty { 4 } else if cluster { 3 } else { t.weighted(&[10, 3, 1, 2]) } {
            4 => 51 + t.index(40),
            0 => 1 + t.index(6),
            1 => 6 + t.index(12),
            2 => 45 + t.index(16),
            // more candidates than any internal batch, fewer than the selection window
            _ => 17 + t.index(33),
        },
        dist: match (profile, t.draw(4)) {
            _ if dusty => AmountDist::DustAndFew,
            _ if cluster => AmountDist::Cluster(*t.pick(&[1_000_000_000i128, 5_000_000_000, 1 << 32, 20_000_000_000, 1_000_000_000_000])),
            (Profile::Boundary, 0..=2) => AmountDist::Boundary,
            (Profile::Fee, 0..=1) => AmountDist::Boundary,
            (Profile::Selection, 0..=2) => AmountDist::Tight,
            (_, 3) => AmountDist::Small,
            _ => AmountDist::Comfortable,
        },
        ties: t.chance(1, 3),
        distinct: false,
        hostile_datums: prop == "C14" && t.draw(5) == 4,
    };
    let (faults, stratum) = draw_faults(&mut t, prop);
    let direct = matches!(prop, "C03" | "C04") && t.chance(2, 3);
    let nres = 1 + t.weighted(&[5, 3, 1]);
    let arg_dist = if matches!(profile, Profile::Boundary) || (prop == "C14" && t.chance(1, 2)) {
        ArgDist::Boundary
    } else {
        ArgDist::Small
    };

    let mut world = World::new(Tape::replay(vec![]));
    gen_ledger(&mut t, &mut world, &program, &ledger_cfg);
    world.cfg = faults.clone();
    if stratum == "faults" && t.draw(6) == 5 {
        // the wall clock is stepped while a resolution is in flight (NTP correction, operator): back
        // by seconds, an hour or more than a year, or forward by a day; the monotonic clock is not
        let at = t.draw(30);
        let delta_s: i64 = *t.pick(&[-5i64, -3600, 86_400, -400 * 86_400, 5]);
        world.realtime_step = Some((at, delta_s * 1_000_000_000));
        world.fire("clock-step");
    }
    world.tape = t;
    let initial_ledger = world.chain.describe();
    let w = world.into_shared();

    let mut comp = SimCompiler::new(make_compiler(&pp));
    let mut shown_res = vec![];
    let mut sig = crate::tape::Digest::default();

    for ri in 0..nres {
        let txspec = {
            let mut g = w.lock().unwrap();
            let i = g.tape.index(program.txs.len());
            program.txs[i].clone()
        };
        let tir_tx = lowered[&txspec.name].clone();
        let plan = {
            let mut g = w.lock().unwrap();
            let chain = g.chain.clone();
            gen_args(&mut g.tape, &program, &txspec, &chain, arg_dist)
        };
        // reuse the compiler instance or take a fresh one
        let fresh = {
            let mut g = w.lock().unwrap();
            ri == 0 || g.tape.chance(1, 2)
        };
        if fresh {
            comp = SimCompiler::new(make_compiler(&pp));
        } else {
            w.lock().unwrap().fire("reuse");
            // a long-lived instance outlives its settings: at an epoch boundary the operator updates the
            // protocol parameters, the fee margin and the cursor of the instance in place (they are
            // public fields); what it compiles from then on follows the settings it has now
            let change = { w.lock().unwrap().tape.draw(4) == 3 };
            if change {
                let mut g = w.lock().unwrap();
                let mut pp2 = draw_pparams(&mut g.tape, true);
                pp2.mainnet = pp.mainnet;
                pp2.cost_models = pp.cost_models;
                pp2.cm_salt = pp.cm_salt;
                pp2.slot = pp.slot + g.tape.draw(1000);
                pp2.time = pp.time;
                drop(g);
                let donor = make_compiler(&pp2);
                comp.inner.pparams = donor.pparams;
                comp.inner.config = donor.config;
                comp.inner.cursor = donor.cursor;
                pp = pp2;
                w.lock().unwrap().fire("settings-changed-on-a-live-instance");
            }
        }
        let cancel_after = {
            let mut g = w.lock().unwrap();
            if stratum == "faults" && g.tape.chance(1, 6) {
                Some(1 + g.tape.draw(24) as u32)
            } else {
                None
            }
        };
        if prop == "C14" {
            let mut g = w.lock().unwrap();
            if stratum == "faults" && g.tape.chance(1, 8) {
                comp.fail_compile_at = Some(g.tape.index(4));
                g.fire("cfail");
            } else if stratum == "faults" && g.tape.chance(1, 8) {
                comp.fail_op_at = Some(g.tape.index(4));
                g.fire("cfail");
            }
        }
        let ctx = format!("resolution {ri} of `{}`", txspec.name);
        crate::rsim::COLLATERAL_IS_A_REGULAR_INPUT.with(|c| c.set(txspec.collateral.is_none() && txspec.inputs.iter().any(|i| i.name == "collateral")));
        // the arguments may reach the resolver the way a client sends them: as JSON text decoded by
        // the service boundary (interop::from_json); the oracles keep judging against the intended values
        let mut wire_args = plan.args.clone();
        let via_json = {
            let mut g = w.lock().unwrap();
            !direct && g.tape.draw(5) == 4
        };
        let mut shown_args = plan.shown.clone();
        let mut json_rejected: Option<String> = None;
        if via_json {
            let declared = tx3_tir::reduce::find_params(&tir_tx);
            for (k, v) in plan.args.iter() {
                let tx3_tir::reduce::ArgValue::Int(n) = v else { continue };
                let Some(ty) = declared.get(k) else { continue };
                let text = {
                    let mut g = w.lock().unwrap();
                    match g.tape.draw(3) {
                        // a bare JSON number, whatever its magnitude (beyond 64 bits a parser without
                        // arbitrary precision hands the server a double)
                        0 => format!("{n}"),
                        1 => format!("\"{n}\""),
                        _ => format!("\"0x{}\"", hex::encode(n.to_be_bytes())),
                    }
                };
                shown_args.insert(k.clone(), format!("json {}", crate::tape::clip(&text, 60)));
                let decoded = guarded(|| {
                    let j: serde_json::Value = serde_json::from_str(&text).map_err(|e| format!("{e}"))?;
                    tx3_resolver::interop::from_json(j, ty).map_err(|e| format!("{e}"))
                });
                match decoded {
                    Ok(Ok(a)) => {
                        wire_args.insert(k.clone(), a);
                    }
                    Ok(Err(e)) => json_rejected = Some(format!("{k}: {e}")),
                    Err(p) => {
                        panic_violation(rep, &p, &format!("{ctx} (argument `{k}` through from_json)"));
                        json_rejected = Some(format!("{k}: panic"));
                    }
                }
            }
            w.lock().unwrap().fire("args-via-json");
        }
        // a caller of the Rust API may leave things in the argument map that no declaration asks for -
        // here a ready-made UTxO set under the very name of an input block (a wallet that did its own
        // coin selection for another template): the template has no use for it, every block is still
        // resolved against the store, and what is bound must still honour what the block states
        {
            let mut g = w.lock().unwrap();
            if g.tape.draw(12) == 11 {
                let names: Vec<String> = txspec.inputs.iter().map(|i| i.name.to_lowercase()).chain(txspec.collateral.iter().map(|_| "collateral".to_string())).collect();
                if !names.is_empty() {
                    let name = names[g.tape.index(names.len())].clone();
                    let keys: Vec<RefKey> = g.chain.utxos.keys().cloned().collect();
                    let mut set = std::collections::HashSet::new();
                    let n = 1 + g.tape.index(2);
                    for _ in 0..n {
                        if !keys.is_empty() && g.tape.chance(3, 4) {
                            let k = keys[g.tape.index(keys.len())].clone();
                            set.insert(g.chain.utxos[&k].to_utxo(&k));
                        } else {
                            // one that exists nowhere
                            let k: RefKey = (vec![0xABu8; 32], g.tape.draw(3) as u32);
                            set.insert(
                                SimUtxo {
                                    address: program.parties[g.tape.index(program.parties.len())].addr.clone(),
                                    value: [(None, 77_000_000i128)].into_iter().collect(),
                                    datum: None,
                                    script: None,
                                }
                                .to_utxo(&k),
                            );
                        }
                    }
                    if !wire_args.contains_key(&name) {
                        wire_args.insert(name.clone(), tx3_tir::reduce::ArgValue::UtxoSet(set));
                        shown_args.insert(name, "a ready-made UTxO set (undeclared extra)".to_string());
                        g.fire("utxo-set-under-an-input-name");
                    }
                }
            }
        }
        if let Some(why) = json_rejected {
            // the request is refused at the boundary: nothing is resolved
            shown_res.push(json!({"tx": txspec.name, "args": shown_args, "result": {"outcome": "Err/argument-rejected", "text": why}}));
            continue;
        }
        let shown;
        if direct {
            shown = run_direct(&w, &program, &txspec, &tir_tx, &plan.args, &wire_args, &pp, stratum, rep, &ctx);
        } else {
            shown = run_e2e(
                prop,
                &w,
                &program,
                &txspec,
                &tir_tx,
                &plan.args,
                &wire_args,
                &pp,
                &mut comp,
                max_rounds,
                cancel_after,
                stratum,
                rep,
                &ctx,
                &mut sig,
            );
        }
        shown_res.push(json!({"tx": txspec.name, "args": shown_args, "result": shown}));
        w.lock().unwrap().drain_events();
    }

    let g = w.lock().unwrap();
    rep.digest = g.log.digest.0;
    rep.events = g.log.n;
    rep.ticks = g.now;
    rep.stub_calls = g.calls;
    *rep.probes.entry("simulated-wall-clock-ms".to_string()).or_insert(0) += (g.now as u128 * g.cfg.tick_len_ns() as u128 / 1_000_000).min(u64::MAX as u128 / 4) as u64;
    if crate::clock::reads() > 0 {
        // nothing on the unchanged tree reads a clock; when something does, it reads the world's
        rep.probe("clock-read-by-code-under-test");
    }
    for (k, v) in &g.fired {
        *rep.fired.entry(k.to_string()).or_insert(0) += v;
    }
    for (k, v) in &g.probes {
        *rep.probes.entry(k.to_string()).or_insert(0) += v;
    }
    rep.evaluations = nres as u64;
    rep.nontrivial = g.calls >= 2;
    sig.u64(g.calls.min(40));
    rep.sig = sig.0;
    rep.sample = Some(json!({
        "engine": "resolver-sim",
        "mode": if direct { "inputs::resolve" } else { "resolve_tx" },
        "profile": format!("{profile:?}"),
        "stratum": stratum,
        "faults": faults.describe(),
        "pparams": pp.describe(),
        "max_optimize_rounds": max_rounds,
        "source": source,
        "ledger": initial_ledger,
        "resolutions": shown_res,
        "events": g.log.lines,
    }));
    rep.tape = g.tape.data.clone();
}

fn panic_violation(rep: &mut WorldReport, p: &crate::exec::PanicInfo, ctx: &str) {
    rep.violate(
        "C14",
        "P1-panic",
        p.site(),
        format!("{ctx}: panicked at {}:{}: {}", p.file, p.line, p.message),
    );
}

#[allow(clippy::too_many_arguments)]
fn run_e2e(
    prop: &str,
    w: &W,
    program: &Program,
    txspec: &TxSpec,
    tir_tx: &tir::Tx,
    args: &ArgMap,
    wire_args: &ArgMap,
    pp: &PPCfg,
    comp: &mut SimCompiler,
    max_rounds: usize,
    cancel_after: Option<u32>,
    stratum: &str,
    rep: &mut WorldReport,
    ctx: &str,
    sig: &mut crate::tape::Digest,
) -> serde_json::Value {
    let byz = w.lock().unwrap().cfg.byz_permille > 0;
    let chain_before = w.lock().unwrap().chain.clone();
    // one resolution in six hands the real instance to the resolver without the recording wrapper
    // (which only forwards the trait methods it knows): the round-level oracles are silent then, the
    // outcome-level ones (crash, decode, well-formedness, balance, echo) judge as usual
    // (not under an unbounded round cap: only the wrapper can stop a loop that never ends)
    let plain = comp.fail_compile_at.is_none() && comp.fail_op_at.is_none() && max_rounds < (1usize << 32) && w.lock().unwrap().tape.chance(1, 6);
    let res = if plain {
        let (outcome, polls) = resolve_plain(w, tir_tx, wire_args, &mut comp.inner, max_rounds, cancel_after);
        comp.overrun = false;
        let g = w.lock().unwrap();
        let r = Resolution {
            outcome,
            rounds: vec![],
            polls,
            calls: g.res_calls,
            faults: g.res_faults,
            moved: g.ledger_moved,
        };
        drop(g);
        w.lock().unwrap().fire("no-wrapper");
        r
    } else {
        resolve_once(w, tir_tx, wire_args, comp, max_rounds, cancel_after)
    };
    if comp.overrun {
        rep.violate(
            "C14",
            "P3-hang",
            if max_rounds >= (1usize << 32) { "no-fixed-point-under-an-unbounded-round-cap" } else { "resolve_tx-runs-past-its-round-cap" },
            format!("{ctx}: resolve_tx asked for compile round {} although max_optimize_rounds = {max_rounds} allows at most {}", comp.compiles, max_rounds.max(3).saturating_add(2)),
        );
    }
    sig.str(&res.outcome.kind().chars().take(24).collect::<String>());
    sig.u64(res.rounds.len() as u64);
    // completeness end to end (C03): `input not resolved` out of a later fee round is judged like one
    // out of inputs::resolve, with the thresholds of the round that failed - the fee the previous
    // round reported (nothing before the first). Static ledger, truthful answers, recorded rounds only.
    if let Outcome::Err { kind, .. } = &res.outcome {
        let view_faults = w.lock().unwrap().res_view_faults;
        if let Some(name) = kind.strip_prefix("InputNotResolved/") {
            if !plain && !byz && !res.moved && view_faults == 0 && comp.fail_compile_at.is_none() && comp.fail_op_at.is_none() {
                let all_ok = res.rounds.iter().all(|r| r.out.is_ok());
                let fee_in: Option<i128> = match res.rounds.last() {
                    None => Some(0),
                    Some(r) => r.out.as_ref().ok().map(|c| c.fee as i128),
                };
                if let (true, Some(f)) = (all_ok, fee_in) {
                    let its_f = intents(program, txspec, args, Some(f), None);
                    let before = rep.violations.len();
                    check_completeness(rep, &its_f, name.split(':').next().unwrap_or(name).trim(), &chain_before, &[], &format!("{ctx} (resolve_tx, after {} compiled round(s), fee {f})", res.rounds.len()));
                    if rep.violations.len() > before {
                        for v in rep.violations[before..].iter_mut() {
                            v.shape = format!("{}/end-to-end", v.shape);
                        }
                    }
                    rep.probe("cmp-judged-end-to-end");
                }
            }
        }
    }
    let served = w.lock().unwrap().served.clone();
    // selection clauses that do not depend on the round's fee: address, ref, arity, collateral, served, disjointness
    let its = intents(program, txspec, args, None, None);
    // per compile round: did some block's bound UTxOs fail to cover its fee-dependent threshold?
    let mut below_threshold: Vec<bool> = vec![false; res.rounds.len()];
    if !byz {
        for (ri, r) in res.rounds.iter().enumerate() {
            let b = bindings_of(&r.tir);
            for (_, v) in &b {
                sig.u64(v.len() as u64);
            }
            let rctx = format!("{ctx}, round {ri}");
            // the fee this round was evaluated with is in the round's own TIR: thresholds that
            // mention `fees` are judged with exactly that fee (min_utxo terms stay unjudged)
            let fee_in = match &r.tir.fees {
                tir::Expression::Assets(a) if a.len() == 1 => match &a[0].amount {
                    tir::Expression::Number(n) => Some(*n),
                    _ => None,
                },
                tir::Expression::Number(n) => Some(*n),
                _ => None,
            };
            let its_r = if fee_in.is_some() { intents(program, txspec, args, fee_in, None) } else { its.clone() };
            check_selection(rep, &its_r, &b, &served, &rctx);
            check_disjoint(rep, &b, &rctx);
            // C05: "every fee-dependent input threshold was computed with that same fee"
            for (spec, it) in txspec.inputs.iter().zip(its_r.iter()) {
                let fee_dependent = spec.min.as_ref().map(|m| m.0.iter().any(|(_, t)| matches!(t, Term::Fees))).unwrap_or(false);
                let (Some(min), Some(sel)) = (&it.min, b.get(&it.name)) else { continue };
                let mut sum = Value::new();
                for u in sel {
                    value_add(&mut sum, &utxo_value(u));
                }
                let covered = if it.many { value_covers(&sum, min) } else { sel.iter().all(|u| value_covers(&utxo_value(u), min)) };
                if !covered {
                    below_threshold[ri] = true;
                }
                if !covered && fee_dependent {
                    rep.violate(
                        "C05",
                        "F3-threshold",
                        it.combo(),
                        format!(
                            "{rctx}: block `{}` has a fee-dependent min_amount which, with the fee {} this round was evaluated with, is {} - not covered by what was bound ({})",
                            it.name,
                            fee_in.unwrap_or(0),
                            show_value(min),
                            show_value(&sum)
                        ),
                    );
                }
            }
        }
    }
    match &res.outcome {
        Outcome::Panic(p) => {
            panic_violation(rep, p, ctx);
            json!({"outcome": res.outcome.kind(), "rounds": res.rounds.len()})
        }
        Outcome::Hung(s) => {
            // with a round cap of 2^62 or usize::MAX the caller has in effect asked for no cap: a
            // template without a fee fixed point (the listed C05 finding) then never stops
            let shape = if max_rounds >= (1usize << 32) { "no-fixed-point-under-an-unbounded-round-cap" } else { "resolve_tx" };
            rep.violate("C14", "P3-hang", shape, format!("{ctx}: {s}"));
            json!({"outcome": "Hung"})
        }
        Outcome::Ok(c) => {
            let d = match crate::txread::decode_tx(&c.payload) {
                Ok(d) => d,
                Err(e) => {
                    rep.violate("C10", "M1-decode", "generic-cbor", format!("{ctx}: payload is not a well-formed transaction: {e}"));
                    return json!({"outcome": "Ok", "undecodable": e});
                }
            };
            let mut attached: Vec<u8> = txspec
                .directives
                .iter()
                .filter_map(|x| match x {
                    Directive::PlutusWitness { version, .. } if (1..=3).contains(version) => Some(*version - 1),
                    _ => None,
                })
                .collect();
            attached.sort();
            attached.dedup();
            check_wellformed(rep, pp, c, &d, &attached, ctx);
            if !byz {
                if let Some(last) = res.rounds.iter().rev().find(|r| r.out.is_ok()) {
                    check_body_inputs(rep, &bindings_of(&last.tir), &d, ctx);
                }
                let extreme = args.values().any(|a| matches!(a, tx3_tir::reduce::ArgValue::Int(v) if v.unsigned_abs() > (1u128 << 125)));
                // a negative change is a listed finding only where the template itself spends more than
                // its min_amount guarantees; if the selection does not even cover the threshold, the
                // cause lies elsewhere and the shape says so
                let last_ok = res.rounds.iter().rposition(|r| r.out.is_ok());
                let uncovered = last_ok.map(|i| below_threshold[i]).unwrap_or(false);
                // ... and only where some output's exact value really is outside its field: if every
                // output of the template evaluates to something the ledger can hold, a wrapped or
                // dropped amount has another cause
                let all_in_range = last_ok
                    .map(|i| {
                        let ex = expected_outputs(program, txspec, args, d.fee, &bindings_of(&res.rounds[i].tir));
                        ex.iter().all(|v| v.as_ref().map(|x| x.values().all(|a| *a >= 0 && *a <= u64::MAX as i128)).unwrap_or(false))
                    })
                    .unwrap_or(false);
                // the listed fold_assets defect (ECHO-mint/sum-of-amounts-overflows-i64) also unbalances
                // the transaction: the mint field loses the asset while the outputs keep it
                let mint_sum_overflow = (0..program.tokens.len()).any(|tok| {
                    let same = |i: usize| program.tokens[i].key() == program.tokens[tok].key();
                    let m: i128 = txspec.mints.iter().filter(|m| same(m.tok)).filter_map(|m| q_val(&m.q, args)).fold(0i128, |a, x| a.saturating_add(x));
                    let b: i128 = txspec.burns.iter().filter(|m| same(m.tok)).filter_map(|m| q_val(&m.q, args)).fold(0i128, |a, x| a.saturating_add(x));
                    m > i64::MAX as i128 || b > (i64::MAX as i128) + 1
                });
                let hint = if extreme {
                    "int-arg-near-i128-limit"
                } else if mint_sum_overflow {
                    "mint-sum-of-amounts-overflows-i64"
                } else if uncovered {
                    "selection-below-its-threshold"
                } else if all_in_range {
                    "although-every-output-is-in-range"
                } else {
                    ""
                };
                check_balance(rep, &d, &served, hint, ctx);
                check_echo(rep, program, txspec, args, &d, pp, ctx);
                if !extreme {
                    if let Some(last) = res.rounds.iter().rev().find(|r| r.out.is_ok()) {
                        check_echo_outputs(rep, program, txspec, args, &d, &bindings_of(&last.tir), ctx);
                    }
                }
            }
            if prop == "C10" {
                if let Some(last) = res.rounds.iter().rev().find(|r| r.out.is_ok()) {
                    let (s1, s2) = {
                        let mut g = w.lock().unwrap();
                        (1 + g.tape.draw(1 << 40), 1 + g.tape.draw(1 << 40))
                    };
                    check_repro(rep, pp, &last.tir, c, s1, s2, ctx);
                }
            }
            if !plain {
                let facts = check_fee(rep, pp, max_rounds, &res.rounds, c, &d, ctx);
                if facts.cap_reached && !facts.converged {
                    rep.probe("round-cap-without-convergence");
                }
            }
            if res.rounds.len() >= 2 {
                let a = bindings_of(&res.rounds[0].tir);
                let b = bindings_of(&res.rounds[res.rounds.len() - 1].tir);
                let ka: Vec<Vec<RefKey>> = a.values().map(|v| v.iter().map(|u| rk(&u.r#ref)).collect()).collect();
                let kb: Vec<Vec<RefKey>> = b.values().map(|v| v.iter().map(|u| rk(&u.r#ref)).collect()).collect();
                if ka != kb {
                    rep.probe("selection-changed-between-rounds");
                }
            }
            if d.outputs.len() < txspec.outputs.len() {
                rep.probe("optional-output-dropped");
            }
            // submit: apply to the chain so that later resolutions see its outputs
            let submit = {
                let mut g = w.lock().unwrap();
                !byz && stratum != "faults" && g.tape.chance(1, 2)
            };
            if submit {
                let mut g = w.lock().unwrap();
                let all_there = d.inputs.iter().all(|i| g.chain.utxos.contains_key(i));
                if all_there {
                    for i in &d.inputs {
                        g.chain.spend(i);
                    }
                    for (ix, o) in d.outputs.iter().enumerate() {
                        let v = crate::txread::value_of_output(o);
                        g.chain.utxos.insert(
                            (c.hash.clone(), ix as u32),
                            SimUtxo {
                                address: o.address.clone(),
                                value: v,
                                datum: None,
                                script: None,
                            },
                        );
                    }
                    g.note(format!("client: submitted {}", hex::encode(&c.hash[..4])));
                }
            }
            json!({
                "outcome": "Ok",
                "rounds": res.rounds.len(),
                "fee": c.fee,
                "body_fee": d.fee.to_string(),
                "payload_len": c.payload.len(),
                "hash": hex::encode(&c.hash),
                "payload": hex::encode(&c.payload),
                "inputs": d.inputs.iter().map(show_ref).collect::<Vec<_>>(),
                "outputs": d.outputs.iter().map(|o| show_value(&crate::txread::value_of_output(o))).collect::<Vec<_>>(),
            })
        }
        other => json!({"outcome": other.kind(), "rounds": res.rounds.len(), "text": match other { Outcome::Err{text,..} => text.clone(), _ => String::new() }}),
    }
}

/// direct stratum of C03/C04: the real `inputs::resolve` on a TIR whose queries are constant
#[allow(clippy::too_many_arguments)]
fn run_direct(
    w: &W,
    program: &Program,
    txspec: &TxSpec,
    tir_tx: &tir::Tx,
    args: &ArgMap,
    wire_args: &ArgMap,
    pp: &PPCfg,
    stratum: &str,
    rep: &mut WorldReport,
    ctx: &str,
) -> serde_json::Value {
    let fee = {
        let mut g = w.lock().unwrap();
        *g.tape.pick(&[200_000u64, 0, 170_000, 1_000_000])
    };
    let mut real = make_compiler(pp);
    let prepared = guarded(|| -> Result<tir::Tx, String> {
        let t = tx3_tir::reduce::apply_args(tir_tx.clone(), wire_args).map_err(|e| format!("{e:?}"))?;
        let t = tx3_tir::reduce::apply_fees(t, fee).map_err(|e| format!("{e:?}"))?;
        let t = t.apply(&mut real).map_err(|e| format!("{e:?}"))?;
        tx3_tir::reduce::reduce(t).map_err(|e| format!("{e:?}"))
    });
    let prepared = match prepared {
        Err(p) => {
            panic_violation(rep, &p, ctx);
            return json!({"outcome": "Panic"});
        }
        Ok(Err(e)) => return json!({"outcome": "Err/prepare", "text": e}),
        Ok(Ok(t)) => t,
    };
    let mut its = intents(program, txspec, args, Some(fee as i128), Some(197 * pp.cpb as i128));
    let mut prepared = prepared;
    // hand-built multi-ref queries (soundness only): the front end writes one reference per block, a
    // client-built IR may list several
    let multi_ref = {
        let mut g = w.lock().unwrap();
        if g.tape.draw(6) == 5 {
            let pool: Vec<RefKey> = g.chain.utxos.keys().cloned().collect();
            let mut rewrite: BTreeMap<String, tir::Expression> = BTreeMap::new();
            let mut blocks: Vec<(String, &tir::Expression)> = vec![];
            for i in prepared.inputs.iter() {
                blocks.push((i.name.clone(), &i.utxos));
            }
            for c in prepared.collateral.iter() {
                blocks.push(("collateral".to_string(), &c.utxos));
            }
            for (name, e) in blocks {
                let tir::Expression::EvalParam(p) = e else { continue };
                let tir::Param::ExpectInput(_, q) = &**p else { continue };
                let had = match &q.r#ref {
                    tir::Expression::UtxoRefs(v) if v.len() == 1 => true,
                    tir::Expression::None => false,
                    _ => continue,
                };
                if g.tape.draw(if had { 2 } else { 4 }) != 0 {
                    continue;
                }
                let n = 1 + g.tape.draw(3) as usize;
                let mut extra: Vec<RefKey> = vec![];
                for _ in 0..n {
                    if !pool.is_empty() && g.tape.draw(5) != 0 {
                        let k = pool[g.tape.index(pool.len())].clone();
                        extra.push(k);
                    } else {
                        extra.push((vec![0xDDu8; 32], g.tape.draw(3) as u32));
                    }
                }
                let mut all: Vec<tx3_tir::model::core::UtxoRef> = match &q.r#ref {
                    tir::Expression::UtxoRefs(v) => v.clone(),
                    _ => vec![],
                };
                all.extend(extra.iter().map(unrk));
                if let Some(b) = its.iter_mut().find(|b| b.name == name) {
                    b.extra_refs = extra;
                    rewrite.insert(name, tir::Expression::UtxoRefs(all));
                }
            }
            drop(g);
            if rewrite.is_empty() {
                false
            } else {
                // the query of a block is repeated wherever the template mentions the input: every copy
                // is rewritten alike
                struct Rw<'a>(&'a BTreeMap<String, tir::Expression>);
                impl<'a> tx3_tir::Visitor for Rw<'a> {
                    fn reduce(&mut self, expr: tir::Expression) -> Result<tir::Expression, tx3_tir::reduce::Error> {
                        if let tir::Expression::EvalParam(p) = &expr {
                            if let tir::Param::ExpectInput(n, q) = &**p {
                                if let Some(r) = self.0.get(n) {
                                    let mut q = q.clone();
                                    q.r#ref = r.clone();
                                    return Ok(tir::Expression::EvalParam(Box::new(tir::Param::ExpectInput(n.clone(), q))));
                                }
                            }
                        }
                        Ok(expr)
                    }
                }
                match guarded(|| prepared.clone().apply(&mut Rw(&rewrite))) {
                    Ok(Ok(t)) => {
                        let qs = tx3_tir::reduce::find_queries(&t);
                        let consistent = rewrite.iter().all(|(n, r)| qs.get(n).map(|q| &q.r#ref == r).unwrap_or(false));
                        if consistent {
                            prepared = t;
                            true
                        } else {
                            for b in its.iter_mut() {
                                b.extra_refs.clear();
                            }
                            false
                        }
                    }
                    _ => {
                        for b in its.iter_mut() {
                            b.extra_refs.clear();
                        }
                        false
                    }
                }
            }
        } else {
            false
        }
    };
    if multi_ref {
        rep.probe("multi-ref-query");
    }
    let mut attempt = 0;
    loop {
        attempt += 1;
        w.lock().unwrap().begin_resolution();
        let chain_before = w.lock().unwrap().chain.clone();
        let store = SimStore::new(w);
        let (end, _stats) = {
            let fut = tx3_resolver::inputs::resolve(AnyTir::V1Beta0(prepared.clone()), &store);
            drive(w, fut, None, 5_000)
        };
        let (moved, faults_fired, served, fetch_reqs) = {
            let g = w.lock().unwrap();
            (g.ledger_moved, g.res_view_faults, g.served.clone(), g.fetch_reqs.clone())
        };
        let byz = w.lock().unwrap().cfg.byz_permille > 0;
        let actx = format!("{ctx} (inputs::resolve, attempt {attempt})");
        match end {
            RunEnd::Panicked(p) => {
                panic_violation(rep, &p, &actx);
                return json!({"outcome": "Panic"});
            }
            RunEnd::Hung(s) => {
                rep.violate("C14", "P3-hang", "inputs::resolve", format!("{actx}: {s}"));
                return json!({"outcome": "Hung"});
            }
            RunEnd::Cancelled(_) => return json!({"outcome": "Cancelled"}),
            RunEnd::Done(Ok(AnyTir::V1Beta0(applied))) => {
                let reduced = guarded(|| tx3_tir::reduce::reduce(applied.clone()));
                let b = match reduced {
                    Ok(Ok(t)) => bindings_of(&t),
                    Ok(Err(_)) => bindings_of(&applied),
                    Err(p) => {
                        panic_violation(rep, &p, &actx);
                        bindings_of(&applied)
                    }
                };
                if !byz {
                    check_selection(rep, &its, &b, &served, &actx);
                    check_disjoint(rep, &b, &actx);
                }
                if b.values().any(|v| v.len() > 1) {
                    rep.probe("multi-utxo-binding");
                }
                return json!({
                    "outcome": "Ok",
                    "attempt": attempt,
                    "bindings": b.iter().map(|(k, v)| (k.clone(), v.iter().map(|u| show_ref(&rk(&u.r#ref))).collect::<Vec<_>>())).collect::<BTreeMap<_, _>>(),
                });
            }
            RunEnd::Done(Err(e)) => {
                let kind = err_kind(&e);
                let injected = matches!(e, tx3_resolver::Error::StoreError(_) | tx3_resolver::Error::TransientError(_));
                if injected && attempt == 1 {
                    // bounded liveness: once faults stop, the next attempt is judged like a fault-free one
                    let mut g = w.lock().unwrap();
                    g.cfg = FaultCfg {
                        lat_max: g.cfg.lat_max,
                        client_timeout: g.cfg.client_timeout,
                        tick_ns: g.cfg.tick_ns,
                        ..Default::default()
                    };
                    g.events.clear();
                    g.note("client: faults stopped, retrying".into());
                    drop(g);
                    continue;
                }
                if injected && attempt > 1 {
                    rep.violate("C03", "LIVE", "retry-after-faults", format!("{actx}: store error after faults stopped: {e}"));
                }
                let static_now = !moved && (faults_fired == 0 || attempt > 1) && !byz;
                if let tx3_resolver::Error::InputNotResolved(name, _, _) = &e {
                    if static_now && !multi_ref {
                        check_completeness(rep, &its, name, &chain_before, &fetch_reqs, &actx);
                    }
                }
                let _ = stratum;
                return json!({"outcome": format!("Err/{kind}"), "attempt": attempt, "text": format!("{e}").chars().take(200).collect::<String>()});
            }
        }
    }
}

/// CMP clauses of C03 (static ledger only).
fn check_completeness(
    rep: &mut WorldReport,
    its: &[BlockIntent],
    failed: &str,
    chain: &SimChain,
    fetch_reqs: &[Vec<RefKey>],
    ctx: &str,
) {
    // blocks are visited in name order; the failing block is the last one that fetched
    let mut names: Vec<&str> = its.iter().map(|b| b.name.as_str()).collect();
    names.sort();
    names.dedup();
    let Some(pos) = names.iter().position(|n| *n == failed) else { return };
    let Some(b) = its.iter().find(|b| b.name == failed) else { return };
    let Some(min) = &b.min else { return };
    if min.values().any(|x| *x < 0) {
        return;
    }
    let wanted_tokens: Vec<&ClassKey> = min.iter().filter(|(k, v)| k.is_some() && **v > 0).map(|(k, _)| k).collect();
    // W: unspent UTxOs satisfying all stated constraints
    let mut wset: Vec<(&RefKey, &SimUtxo)> = chain
        .utxos
        .iter()
        .filter(|(k, u)| {
            b.address.as_ref().map(|a| &u.address == a).unwrap_or(true)
                && b.r#ref.as_ref().map(|r| *k == r).unwrap_or(true)
                && (b.address.is_some()
                    || b.r#ref.is_some()
                    || (!wanted_tokens.is_empty() && wanted_tokens.iter().all(|t| u.value.get(*t).copied().unwrap_or(0) > 0)))
                && (!b.collateral || u.value.keys().all(|k| k.is_none()))
        })
        .collect();
    // U: loosest candidate universe
    let ucount = chain
        .utxos
        .iter()
        .filter(|(k, u)| {
            b.address.as_ref().map(|a| &u.address == a).unwrap_or(false)
                || b.r#ref.as_ref().map(|r| *k == r).unwrap_or(false)
                || wanted_tokens.iter().any(|t| u.value.get(*t).copied().unwrap_or(0) > 0)
        })
        .count();
    if ucount > 50 {
        rep.probe("cmp-skipped-window");
        return;
    }
    let combo = b.combo();
    if pos > 0 {
        // later blocks.  Route 1 (counting): when every earlier regular block is a single-UTxO block,
        // at most `k` candidates can have been taken, whichever they were; if a cover survives the
        // loss of any k candidates, selection must succeed.
        let earlier: Vec<&BlockIntent> = names[..pos].iter().filter_map(|n| its.iter().find(|x| x.name == *n)).filter(|x| !x.collateral).collect();
        // the collateral block draws from its own pool: regular blocks take nothing away from it
        // (the property lets it share a UTxO with a regular input), so nothing can have been taken
        let k = if b.collateral { 0 } else { earlier.len() };
        if b.collateral || earlier.iter().all(|x| !x.many) {
            if !b.many {
                let covering = wset.iter().filter(|(_, u)| value_covers(&u.value, min)).count();
                if covering > k {
                    rep.violate(
                        "C03",
                        "CMP-single",
                        format!("{combo}/later-block"),
                        format!(
                            "{ctx}: block `{failed}` reported unresolved although {covering} candidates each meet every constraint and cover {}, and the {k} earlier single-UTxO block(s) can have taken at most {k} of them",
                            show_value(min)
                        ),
                    );
                    return;
                }
            } else if !min.is_empty() {
                let mut survives = !wset.is_empty();
                for (class, need) in min.iter() {
                    let mut amounts: Vec<i128> = wset.iter().map(|(_, u)| u.value.get(class).copied().unwrap_or(0)).collect();
                    amounts.sort_unstable_by(|a, b| b.cmp(a));
                    let rest: i128 = amounts.iter().skip(k).sum();
                    if rest < *need {
                        survives = false;
                    }
                }
                if survives {
                    rep.violate(
                        "C03",
                        "CMP-many",
                        format!("{combo}/later-block"),
                        format!(
                            "{ctx}: multi-UTxO block `{failed}` reported unresolved although its {} candidates still cover {} after the loss of any {k} of them to the {k} earlier single-UTxO block(s)",
                            wset.len(),
                            show_value(min)
                        ),
                    );
                    return;
                }
            }
        }
        // Route 2: only what was actually presented to the selector in this block's fetch counts as untaken
        let Some(req) = fetch_reqs.get(pos) else { return };
        wset.retain(|(k, _)| req.contains(k));
    }
    if !b.many || b.collateral {
        if let Some((k, u)) = wset.iter().find(|(_, u)| value_covers(&u.value, min)) {
            rep.violate(
                "C03",
                "CMP-single",
                combo,
                format!(
                    "{ctx}: block `{failed}` reported unresolved although candidate {} holding {} meets every constraint and covers {}",
                    show_ref(k),
                    show_value(&u.value),
                    show_value(min)
                ),
            );
        }
    } else {
        let mut sum = Value::new();
        for (_, u) in &wset {
            value_add(&mut sum, &u.value);
        }
        if !wset.is_empty() && value_covers(&sum, min) {
            rep.violate(
                "C03",
                "CMP-many",
                combo,
                format!(
                    "{ctx}: multi-UTxO block `{failed}` reported unresolved although its {} candidates sum to {} which covers {}",
                    wset.len(),
                    show_value(&sum),
                    show_value(min)
                ),
            );
        }
    }
}


/// A template that differs from `tx` only in what reaches the body through a hash: metadata
/// content or presence, redeemer data, the language of a plutus witness.  Compiling it right after
/// `tx` on one instance is the history under which anything the instance keeps between two
/// compilations (and keys too coarsely) shows up.
fn sibling_template(tx: &tir::Tx, variant: u64) -> tir::Tx {
    let mut s = tx.clone();
    let bump = |e: &mut tir::Expression| match e {
        tir::Expression::Number(n) => *n = n.wrapping_add(1),
        tir::Expression::Bytes(b) => b.push(0x5A),
        tir::Expression::String(x) => x.push('x'),
        tir::Expression::Struct(st) => st.constructor = (st.constructor + 1) % 5,
        other => *other = tir::Expression::Number(7),
    };
    match variant % 4 {
        0 => {
            if let Some(m) = s.metadata.first_mut() {
                bump(&mut m.value);
            } else {
                s.metadata.push(tir::Metadata {
                    key: tir::Expression::Number(674),
                    value: tir::Expression::String("note".into()),
                });
            }
        }
        1 => {
            if s.metadata.is_empty() {
                s.metadata.push(tir::Metadata {
                    key: tir::Expression::Number(1),
                    value: tir::Expression::Number(1),
                });
            } else {
                s.metadata.clear();
            }
        }
        2 => {
            let mut done = false;
            for i in s.inputs.iter_mut() {
                if !i.redeemer.is_none() {
                    bump(&mut i.redeemer);
                    done = true;
                }
            }
            for m in s.mints.iter_mut().chain(s.burns.iter_mut()) {
                if !m.redeemer.is_none() {
                    bump(&mut m.redeemer);
                    done = true;
                }
            }
            if !done {
                if let Some(m) = s.metadata.first_mut() {
                    bump(&mut m.value);
                }
            }
        }
        _ => {
            let mut done = false;
            for a in s.adhoc.iter_mut() {
                if a.name == "plutus_witness" {
                    if let Some(tir::Expression::Number(v)) = a.data.get_mut("version") {
                        *v = if *v == 3 { 2 } else { 3 };
                        done = true;
                    }
                }
            }
            if !done {
                if let Some(m) = s.metadata.first_mut() {
                    bump(&mut m.value);
                }
            }
        }
    }
    s
}

/// R1 of C10: the constant TIR of the returned round is encoded once, then decoded and
/// compiled in two fresh worlds with different hash seeds ("a second process") and twice
/// on one instance; payload, hash and fee must be byte-identical.
fn check_repro(rep: &mut WorldReport, pp: &PPCfg, tx: &tir::Tx, original: &crate::compiler::Compiled, s1: u64, s2: u64, ctx: &str) {
    use tx3_tir::compile::Compiler as _;
    let (bytes, version) = tx3_tir::encoding::to_bytes(tx);
    let run = |seed: u64| {
        let bytes = bytes.clone();
        let version = version.clone();
        let pp = pp.clone();
        crate::entropy::in_world(seed, move || {
            guarded(|| {
                let any = tx3_tir::encoding::from_bytes(&bytes, version).map_err(|e| format!("{e:?}"))?;
                let mut c = make_compiler(&pp);
                let a = c.compile(&any).map_err(|e| format!("{e:?}"))?;
                let b = c.compile(&any).map_err(|e| format!("{e:?}"))?;
                // history on the instance: a sibling template right after, against a fresh instance
                let AnyTir::V1Beta0(plain) = &any;
                let sib = AnyTir::V1Beta0(sibling_template(plain, seed));
                let used = c.compile(&sib).map(|x| x.payload).map_err(|e| first_ident(&format!("{e:?}")));
                let fresh = make_compiler(&pp).compile(&sib).map(|x| x.payload).map_err(|e| first_ident(&format!("{e:?}")));
                if used != fresh {
                    return Err("SIBLING".to_string());
                }
                // and the template itself once more, now after the sibling
                let again = c.compile(&any).map_err(|e| format!("{e:?}"))?;
                if again.payload != a.payload {
                    return Err("AFTER-SIBLING".to_string());
                }
                Ok::<_, String>((crate::compiler::copy_compiled(&a), crate::compiler::copy_compiled(&b)))
            })
        })
    };
    rep.fire("hseed-pair");
    let multi = bindings_of(tx).values().any(|v| v.len() > 1);
    let shape = if multi { "multi-utxo-input" } else { "single-utxo-inputs" };
    let (a, b) = (run(s1), run(s2));
    match (a, b) {
        (Ok(Ok((a1, a2))), Ok(Ok((b1, _)))) => {
            if a1.payload != a2.payload || a1.hash != a2.hash {
                rep.violate("C10", "R1-repro", format!("{shape}/same-instance"), format!("{ctx}: compiling the same reduced template twice on one instance gave different payloads"));
            }
            if a1.payload != b1.payload || a1.hash != b1.hash || a1.fee != b1.fee {
                rep.violate(
                    "C10",
                    "R1-repro",
                    shape,
                    format!(
                        "{ctx}: the same reduced template compiled under hash seeds {s1} and {s2} gave tx {} and {}",
                        hex::encode(&a1.hash[..6]),
                        hex::encode(&b1.hash[..6])
                    ),
                );
            } else if a1.payload != original.payload {
                rep.violate(
                    "C10",
                    "R1-repro",
                    format!("{shape}/vs-resolver"),
                    format!("{ctx}: recompiling the returned round's template after an encode/decode round trip gave a different payload than the resolver returned"),
                );
            }
        }
        (Err(p), _) | (_, Err(p)) => panic_violation(rep, &p, ctx),
        (Ok(Err(e)), _) | (_, Ok(Err(e))) if e == "SIBLING" || e == "AFTER-SIBLING" => {
            rep.violate(
                "C10",
                "R1-repro",
                if e == "SIBLING" { "sibling-after-template-on-one-instance" } else { "template-after-sibling-on-one-instance" },
                format!("{ctx}: a template compiled on an instance that has just compiled a sibling template (same body up to metadata / redeemer / witness language) gives a different payload than on a fresh instance"),
            );
        }
        (Ok(Err(e)), _) | (_, Ok(Err(e))) => {
            rep.violate("C10", "R1-repro", "recompile-failed", format!("{ctx}: the template the resolver compiled cannot be compiled again after an encode/decode round trip: {e}"));
        }
    }
}

// ---------------------------------------------------------------- examples through the resolver (C14)

/// C14 only: a transaction of one of the example programs (language features the generator does
/// not write: variants, maps, concat, locals, env, literal refs, policies with scripts) resolved
/// end to end with type-directed, boundary-heavy arguments against a small ledger that holds
/// UTxOs at every address handed in, under the same fault strata as the generated worlds.
pub fn world_examples(_tier: Tier, world_no: u64, mut tape: Tape) -> WorldReport {
    let hseed = tape.draw(1 << 32);
    crate::entropy::in_world(hseed, move || {
        let mut rep = WorldReport {
            world: world_no,
            ..Default::default()
        };
        if let Err(p) = guarded(|| inner_examples(world_no, tape, &mut rep)) {
            rep.harness_error = Some(format!("harness panic: {} at {}:{}", p.message, p.file, p.line));
        }
        rep
    })
}

fn inner_examples(world_no: u64, mut t: Tape, rep: &mut WorldReport) {
    use tx3_tir::model::core::Type;
    use tx3_tir::reduce::ArgValue;
    let examples = crate::p_entropy::example_sources();
    if examples.is_empty() {
        rep.harness_error = Some("no example programs under /repo/examples".into());
        return;
    }
    let (name, source) = examples[(world_no as usize / 8) % examples.len()].clone();
    let lowered = match guarded(|| crate::front::lower_all(&source)) {
        Ok(Ok(x)) if !x.is_empty() => x,
        _ => {
            rep.sample = Some(json!({"program": name, "skipped": "front end does not take this example"}));
            rep.tape = t.data.clone();
            return;
        }
    };
    let names: Vec<&String> = lowered.keys().collect();
    let txname = names[t.index(names.len())].clone();
    let tx0 = lowered[&txname].clone();
    let mut pp = draw_pparams(&mut t, true);
    pp.mainnet = t.chance(1, 4);
    if t.chance(1, 6) {
        for v in 0..3 {
            pp.cost_models[v] = t.chance(1, 2);
        }
    }
    let max_rounds = *t.pick(&[3usize, 0, 5, 10, 3, usize::MAX]);
    let (faults, stratum) = draw_faults(&mut t, "C14");

    // ---- ledger: UTxOs at a few addresses, with tokens and datums of several shapes
    let mut world = World::new(Tape::replay(vec![]));
    let addrs: Vec<Vec<u8>> = (0..3).map(|i| addr_for(i, pp.mainnet, t.chance(1, 4))).collect();
    let n = 1 + t.index(8);
    for _ in 0..n {
        let mut v = Value::new();
        let l = match t.draw(3) {
            0 => draw_lovelace(&mut t, &AmountDist::Comfortable),
            1 => draw_lovelace(&mut t, &AmountDist::Tight),
            _ => draw_lovelace(&mut t, &AmountDist::Boundary),
        };
        if l != 0 {
            v.insert(None, l);
        }
        if t.chance(1, 3) {
            let pol: Vec<u8> = vec![*t.pick(&[0x11u8, 0xAB, 0x6b]); *t.pick(&[28usize, 28, 5])];
            v.insert(Some((pol, t.pick(&[&b"MYTOKEN"[..], b"", b"ABC"]).to_vec())), 1 + t.draw(200) as i128);
        }
        let datum = match t.draw(5) {
            0 => None,
            1 => Some(tir::Expression::Number(int_boundary(&mut t))),
            2 => Some(tir::Expression::Struct(tir::StructExpr {
                constructor: t.draw(3) as usize,
                fields: vec![
                    tir::Expression::Number(t.draw(100) as i128),
                    tir::Expression::Bytes(t.bytes(4)),
                    tir::Expression::Bytes(t.bytes(28)),
                    tir::Expression::List(vec![tir::Expression::Number(1), tir::Expression::Number(2)]),
                    tir::Expression::Map(vec![(tir::Expression::Number(1), tir::Expression::Bytes(vec![1]))]),
                ],
            })),
            3 => Some(tir::Expression::Struct(tir::StructExpr {
                constructor: 0,
                fields: vec![],
            })),
            _ => Some(tir::Expression::List(vec![])),
        };
        let a = addrs[t.index(addrs.len())].clone();
        world.chain.create(a, v, datum);
    }
    world.addr_pool = addrs.clone();
    let mut pool: Vec<Value> = vec![];
    for amt in [2_000_000i128, 50_000_000] {
        let mut v = Value::new();
        v.insert(None, amt);
        pool.push(v);
    }
    world.value_pool = pool;

    // ---- type-directed arguments
    let params = tx3_tir::reduce::find_params(&tx0);
    let mut args = ArgMap::new();
    let mut shown = BTreeMap::new();
    let refs: Vec<RefKey> = world.chain.utxos.keys().cloned().collect();
    for (k, ty) in &params {
        if t.chance(1, 25) {
            continue; // a client may leave one out
        }
        let v = match ty {
            Type::Int => ArgValue::Int(if t.chance(1, 2) { int_boundary(&mut t) } else { *t.pick(&[2_000_000i128, 1, 0, 100, 5]) }),
            Type::Bool => ArgValue::Bool(t.chance(1, 2)),
            Type::Bytes => {
                let n = *t.pick(&[28usize, 0, 1, 4, 27, 29, 32, 33, 64]);
                ArgValue::Bytes(t.bytes(n))
            }
            Type::Address => {
                if t.chance(1, 8) {
                    let n = *t.pick(&[0usize, 1, 28, 29, 57, 58, 100]);
                    ArgValue::Address(t.bytes(n))
                } else {
                    ArgValue::Address(addrs[t.index(addrs.len())].clone())
                }
            }
            Type::UtxoRef => {
                if !refs.is_empty() && !t.chance(1, 4) {
                    ArgValue::UtxoRef(unrk(&refs[t.index(refs.len())]))
                } else {
                    let n = *t.pick(&[32usize, 0, 31, 33]);
                    ArgValue::UtxoRef(unrk(&(t.bytes(n), 0)))
                }
            }
            Type::Undefined => ArgValue::String("x".into()),
            _ => continue,
        };
        shown.insert(k.clone(), format!("{v:?}").chars().take(80).collect::<String>());
        args.insert(k.clone(), v);
    }

    world.cfg = faults.clone();
    if stratum == "faults" && t.draw(6) == 5 {
        // the wall clock is stepped while a resolution is in flight (NTP correction, operator): back
        // by seconds, an hour or more than a year, or forward by a day; the monotonic clock is not
        let at = t.draw(30);
        let delta_s: i64 = *t.pick(&[-5i64, -3600, 86_400, -400 * 86_400, 5]);
        world.realtime_step = Some((at, delta_s * 1_000_000_000));
        world.fire("clock-step");
    }
    world.tape = t;
    let ledger = world.chain.describe();
    let w = world.into_shared();
    let mut comp = SimCompiler::new(make_compiler(&pp));
    comp.record = false;
    let nres = 1 + w.lock().unwrap().tape.index(2);
    let mut outcomes = vec![];
    for ri in 0..nres {
        let cancel_after = {
            let mut g = w.lock().unwrap();
            if stratum == "faults" && g.tape.chance(1, 6) {
                Some(1 + g.tape.draw(24) as u32)
            } else {
                None
            }
        };
        let res = resolve_once(&w, &tx0, &args, &mut comp, max_rounds, cancel_after);
        let ctx = format!("`{name}`/{txname}, resolution {ri}");
        if comp.overrun {
            rep.violate(
                "C14",
                "P3-hang",
                if max_rounds >= (1usize << 32) { "no-fixed-point-under-an-unbounded-round-cap" } else { "resolve_tx-runs-past-its-round-cap" },
                format!("{ctx}: resolve_tx ran past its round cap"),
            );
        }
        match &res.outcome {
            Outcome::Panic(p) => panic_violation(rep, p, &ctx),
            Outcome::Hung(s) => rep.violate(
                "C14",
                "P3-hang",
                if max_rounds >= (1usize << 32) { "no-fixed-point-under-an-unbounded-round-cap" } else { "resolve_tx" },
                format!("{ctx}: {s}"),
            ),
            _ => {}
        }
        outcomes.push(res.outcome.kind());
        w.lock().unwrap().drain_events();
    }
    let g = w.lock().unwrap();
    rep.digest = g.log.digest.0;
    rep.events = g.log.n;
    rep.ticks = g.now;
    rep.stub_calls = g.calls;
    *rep.probes.entry("simulated-wall-clock-ms".to_string()).or_insert(0) += (g.now as u128 * g.cfg.tick_len_ns() as u128 / 1_000_000).min(u64::MAX as u128 / 4) as u64;
    if crate::clock::reads() > 0 {
        // nothing on the unchanged tree reads a clock; when something does, it reads the world's
        rep.probe("clock-read-by-code-under-test");
    }
    for (k, v) in &g.fired {
        *rep.fired.entry(k.to_string()).or_insert(0) += v;
    }
    rep.fire("example-through-resolver");
    rep.evaluations = nres as u64;
    rep.nontrivial = true;
    rep.sig = crate::tape::mix_str(world_no % 64, &outcomes.join(",").chars().take(40).collect::<String>());
    rep.sample = Some(json!({
        "engine": "resolver-sim (example program end to end)",
        "program": name,
        "tx": txname,
        "stratum": stratum,
        "faults": faults.describe(),
        "pparams": pp.describe(),
        "args": shown,
        "ledger": ledger,
        "outcomes": outcomes,
    }));
    rep.tape = g.tape.data.clone();
}
