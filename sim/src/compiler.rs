//! SimCompiler: a delegating wrapper around the real tx3_cardano::Compiler.
//! `resolve_tx` is generic over the compiler, so the real loop runs unmodified
//! while the wrapper records every round (N4) and can fail one call ("cfail").

use std::cell::RefCell;

use tx3_cardano::Compiler as RealCompiler;
use tx3_tir::compile::{CompiledTx, Compiler, Error as CError};
use tx3_tir::encoding::AnyTir;
use tx3_tir::model::v1beta0 as tir;
use tx3_tir::reduce::Error as RError;

#[derive(Clone, Debug)]
pub struct Compiled {
    pub payload: Vec<u8>,
    pub hash: Vec<u8>,
    pub fee: u64,
}

#[derive(Clone, Debug)]
pub struct RoundRec {
    pub tir: tir::Tx,
    pub out: Result<Compiled, String>,
}

pub struct SimCompiler {
    pub inner: RealCompiler,
    pub rounds: Vec<RoundRec>,
    pub ops: RefCell<Vec<(String, Result<String, String>)>>,
    pub fail_compile_at: Option<usize>,
    pub fail_op_at: Option<usize>,
    pub cfail_fired: RefCell<u32>,
    pub record: bool,
    /// compile calls allowed per resolution (the loop's own cap + slack); one more is an overrun
    pub round_limit: Option<usize>,
    pub compiles: usize,
    pub overrun: bool,
}

impl SimCompiler {
    pub fn new(inner: RealCompiler) -> Self {
        SimCompiler {
            inner,
            rounds: vec![],
            ops: RefCell::new(vec![]),
            fail_compile_at: None,
            fail_op_at: None,
            cfail_fired: RefCell::new(0),
            record: true,
            round_limit: None,
            compiles: 0,
            overrun: false,
        }
    }

    pub fn reset_log(&mut self) {
        self.rounds.clear();
        self.ops.borrow_mut().clear();
        self.fail_compile_at = None;
        self.fail_op_at = None;
    }
}

pub fn copy_compiled(c: &CompiledTx) -> Compiled {
    Compiled {
        payload: c.payload.clone(),
        hash: c.hash.clone(),
        fee: c.fee,
    }
}

impl Compiler for SimCompiler {
    type CompilerOp = tir::CompilerOp;
    type Expression = tir::Expression;

    fn compile(&mut self, t: &AnyTir) -> Result<CompiledTx, CError> {
        self.compiles += 1;
        if let Some(limit) = self.round_limit {
            if self.compiles > limit {
                // the resolve loop is past its own cap: break it (bounded liveness, C14/P3)
                self.overrun = true;
                return Err(CError::FormatError("simulation: round cap exceeded".into()));
            }
        }
        let n = self.rounds.len();
        if self.fail_compile_at == Some(n) {
            *self.cfail_fired.borrow_mut() += 1;
            let AnyTir::V1Beta0(tx) = t;
            self.rounds.push(RoundRec {
                tir: tx.clone(),
                out: Err("injected compile failure".into()),
            });
            return Err(CError::FormatError("injected compile failure".into()));
        }
        let r = self.inner.compile(t);
        if self.record {
            let AnyTir::V1Beta0(tx) = t;
            self.rounds.push(RoundRec {
                tir: tx.clone(),
                out: match &r {
                    Ok(c) => Ok(copy_compiled(c)),
                    Err(e) => Err(format!("{e:?}")),
                },
            });
        }
        r
    }

    fn reset(&mut self) {
        // a delegating wrapper: the real instance decides what a new resolution forgets
        self.inner.reset();
    }

    fn reduce_op(&self, op: Self::CompilerOp) -> Result<Self::Expression, RError> {
        let n = self.ops.borrow().len();
        if self.fail_op_at == Some(n) {
            *self.cfail_fired.borrow_mut() += 1;
            self.ops
                .borrow_mut()
                .push((format!("{op:?}"), Err("injected".into())));
            return Err(RError::CompilerOpFailed(Box::new(CError::FormatError(
                "injected compiler-op failure".into(),
            ))));
        }
        let label = if self.record { format!("{op:?}") } else { String::new() };
        let r = self.inner.reduce_op(op);
        if self.record {
            self.ops.borrow_mut().push((
                label,
                match &r {
                    Ok(e) => Ok(format!("{e:?}")),
                    Err(e) => Err(format!("{e:?}")),
                },
            ));
        } else {
            self.ops.borrow_mut().push((String::new(), Ok(String::new())));
        }
        r
    }
}
