//! resolver-sim: the real `resolve_tx` / `inputs::resolve` against SimStore,
//! SimChain and SimCompiler, under a fault plan drawn from the tape.

use std::collections::{BTreeMap, BTreeSet};

use tx3_cardano::{ChainPoint, Compiler as RealCompiler, Config, PParams};
use tx3_resolver::Error as RError;
use tx3_tir::encoding::AnyTir;
use tx3_tir::model::core::Utxo;
use tx3_tir::model::v1beta0 as tir;
use tx3_tir::reduce::{ArgMap, ArgValue};

use crate::chain::*;
use crate::compiler::{Compiled, RoundRec, SimCompiler};
use crate::exec::{drive, PanicInfo, RunEnd};
use crate::gen::*;
use crate::world::{SimStore, W};

#[derive(Clone, Debug)]
pub struct PPCfg {
    pub mainnet: bool,
    pub coef: u64,
    pub constant: u64,
    pub cpb: u64,
    pub extra: Option<u64>,
    pub cost_models: [bool; 3],
    pub slot: u64,
    pub time: u128,
    /// protocol parameters differ from network to network and from epoch to epoch: the cost
    /// models of this world are the base ones shifted by this
    pub cm_salt: i64,
}

impl PPCfg {
    pub fn plain() -> Self {
        PPCfg {
            cm_salt: 0,
            mainnet: false,
            coef: 44,
            constant: 155_381,
            cpb: 4310,
            extra: None,
            cost_models: [true, true, true],
            slot: 101_674_141,
            time: 1_757_611_408_000,
        }
    }
    pub fn margin(&self) -> u64 {
        self.extra.unwrap_or(200_000)
    }
    pub fn describe(&self) -> String {
        format!(
            "net={} a={} b={} cpb={} extra={:?} cost_models={:?}+{} slot={}",
            if self.mainnet { "main" } else { "test" },
            self.coef,
            self.constant,
            self.cpb,
            self.extra,
            self.cost_models,
            self.cm_salt,
            self.slot
        )
    }
}

pub fn cost_model(v: u8, salt: i64) -> Vec<i64> {
    // the salt also picks the length: short stand-ins, the sizes the ledger defines per language
    // (166 / 185 / 297), and models with trailing parameters a node may report beyond those
    let len: i64 = match salt / 11 {
        2 => [166, 185, 297][v as usize % 3],
        3 => [170, 190, 302][v as usize % 3],
        4 => 400,
        _ => 10 + v as i64,
    };
    (0..len).map(|i| 1000 * (v as i64 + 1) + i * 7 - 3 + salt).collect()
}

pub fn make_compiler(pp: &PPCfg) -> RealCompiler {
    let mut cost_models = std::collections::HashMap::new();
    for v in 0..3u8 {
        if pp.cost_models[v as usize] {
            cost_models.insert(v, cost_model(v, pp.cm_salt));
        }
    }
    let network = if pp.mainnet {
        tx3_cardano::Network::Mainnet
    } else {
        tx3_cardano::Network::Testnet
    };
    RealCompiler::new(
        PParams {
            network,
            min_fee_coefficient: pp.coef,
            min_fee_constant: pp.constant,
            coins_per_utxo_byte: pp.cpb,
            cost_models,
        },
        Config { extra_fees: pp.extra },
        ChainPoint {
            slot: pp.slot,
            hash: vec![],
            timestamp: pp.time,
        },
    )
}

pub fn draw_pparams(t: &mut crate::tape::Tape, wide: bool) -> PPCfg {
    let mut pp = PPCfg::plain();
    if t.chance(1, 3) {
        pp.cm_salt = t.draw(5) as i64 * 11;
    }
    if wide {
        pp.coef = *t.pick(&[44u64, 0, 1, 100, 1000, 999, 500]);
        pp.constant = *t.pick(&[155_381u64, 0, 2, 1_000_000, 65_000]);
        pp.cpb = *t.pick(&[4310u64, 1, 0, 100_000]);
        pp.extra = *t.pick(&[None, Some(0), Some(1), Some(77_000), Some(4_294_900_000)]);
    } else if t.chance(1, 3) {
        pp.coef = *t.pick(&[44u64, 1, 1000]);
        pp.extra = *t.pick(&[None, Some(0)]);
    }
    pp
}

#[derive(Clone, Debug)]
pub enum Outcome {
    Ok(Compiled),
    Err { kind: String, text: String },
    Cancelled(u32),
    Panic(PanicInfo),
    Hung(String),
}

impl Outcome {
    pub fn kind(&self) -> String {
        match self {
            Outcome::Ok(_) => "Ok".into(),
            Outcome::Err { kind, .. } => format!("Err/{kind}"),
            Outcome::Cancelled(_) => "Cancelled".into(),
            Outcome::Panic(p) => format!("Panic/{}", p.site()),
            Outcome::Hung(_) => "Hung".into(),
        }
    }
}

pub fn first_ident(s: &str) -> String {
    s.chars().take_while(|c| c.is_alphanumeric() || *c == '_').collect()
}

pub fn err_kind(e: &RError) -> String {
    match e {
        RError::CompileError(x) => format!("CompileError/{}", first_ident(&format!("{x:?}"))),
        RError::ReduceError(x) => {
            let inner = format!("{x:?}");
            if let tx3_tir::reduce::Error::CompilerOpFailed(c) = x {
                format!("ReduceError/CompilerOpFailed/{}", first_ident(&format!("{c:?}")))
            } else {
                format!("ReduceError/{}", first_ident(&inner))
            }
        }
        RError::InteropError(x) => format!("InteropError/{}", first_ident(&format!("{x:?}"))),
        RError::TirEncodingError(x) => format!("TirEncodingError/{}", first_ident(&format!("{x:?}"))),
        RError::InputNotResolved(name, _, _) => format!("InputNotResolved/{name}"),
        other => first_ident(&format!("{other:?}")),
    }
}

pub struct Resolution {
    pub outcome: Outcome,
    pub rounds: Vec<RoundRec>,
    pub polls: u32,
    pub calls: u64,
    pub faults: u64,
    pub moved: bool,
}

fn short(s: String) -> String {
    if s.len() > 300 {
        let mut cut = 300;
        while !s.is_char_boundary(cut) {
            cut -= 1;
        }
        format!("{}…", &s[..cut])
    } else {
        s
    }
}

pub fn resolve_once(
    w: &W,
    tx: &tir::Tx,
    args: &ArgMap,
    comp: &mut SimCompiler,
    max_rounds: usize,
    cancel_after: Option<u32>,
) -> Resolution {
    w.lock().unwrap().begin_resolution();
    comp.rounds.clear();
    comp.ops.borrow_mut().clear();
    comp.compiles = 0;
    comp.overrun = false;
    // never more than 2000 compile rounds, whatever the cap: a loop that no longer awaits the store
    // would otherwise spin inside one poll where the executor cannot reach it
    comp.round_limit = Some(max_rounds.max(3).saturating_add(2 + 3).min(2000));
    let store = SimStore::new(w);
    let any = AnyTir::V1Beta0(tx.clone());
    let (end, stats) = {
        let fut = tx3_resolver::resolve_tx(any, args, comp, &store, max_rounds);
        drive(w, fut, cancel_after, 4_000)
    };
    let outcome = match end {
        RunEnd::Done(Ok(c)) => Outcome::Ok(crate::compiler::copy_compiled(&c)),
        RunEnd::Done(Err(e)) => Outcome::Err {
            kind: err_kind(&e),
            text: short(format!("{e}")),
        },
        RunEnd::Cancelled(k) => Outcome::Cancelled(k),
        RunEnd::Panicked(p) => Outcome::Panic(p),
        RunEnd::Hung(s) => Outcome::Hung(s),
    };
    let mut g = w.lock().unwrap();
    g.note(format!("resolution -> {}", outcome.kind()));
    Resolution {
        outcome,
        rounds: comp.rounds.clone(),
        polls: stats.polls,
        calls: g.res_calls,
        faults: g.res_faults,
        moved: g.ledger_moved,
    }
}

/// The same resolution on a compiler handed in as it is - no delegating wrapper in between. A
/// wrapper only forwards the trait methods it knows; what the resolver and the real instance agree
/// on through a method added later (with a default body) would silently bypass it.
pub fn resolve_plain<C>(w: &W, tx: &tir::Tx, args: &ArgMap, comp: &mut C, max_rounds: usize, cancel_after: Option<u32>) -> (Outcome, u32)
where
    C: tx3_tir::compile::Compiler<Expression = tir::Expression, CompilerOp = tir::CompilerOp> + Send,
{
    w.lock().unwrap().begin_resolution();
    let store = SimStore::new(w);
    let any = AnyTir::V1Beta0(tx.clone());
    let (end, stats) = {
        let fut = tx3_resolver::resolve_tx(any, args, comp, &store, max_rounds);
        drive(w, fut, cancel_after, 4_000)
    };
    let outcome = match end {
        RunEnd::Done(Ok(c)) => Outcome::Ok(crate::compiler::copy_compiled(&c)),
        RunEnd::Done(Err(e)) => Outcome::Err {
            kind: err_kind(&e),
            text: short(format!("{e}")),
        },
        RunEnd::Cancelled(k) => Outcome::Cancelled(k),
        RunEnd::Panicked(p) => Outcome::Panic(p),
        RunEnd::Hung(s) => Outcome::Hung(s),
    };
    w.lock().unwrap().note(format!("resolution -> {}", outcome.kind()));
    (outcome, stats.polls)
}

/// The compiler reaches `resolve_tx` through the most indirect handle the crates accept as a compiler.
/// On the tree as it stands only the instance itself implements the trait, so the pointee is handed
/// over; should a pointer type (`&mut C`) ever be given an implementation of its own - forwarding
/// what its author thought of - the pointer is handed over instead, as a caller holding one would.
/// (Inherent methods whose bounds do not hold are skipped by method resolution; the trait method is
/// the fallback.)
pub struct Handle<'a>(pub &'a mut RealCompiler);

#[allow(dead_code)]
impl<'a> Handle<'a>
where
    &'a mut RealCompiler: tx3_tir::compile::Compiler<Expression = tir::Expression, CompilerOp = tir::CompilerOp> + Send,
{
    pub fn resolve(&mut self, w: &W, tx: &tir::Tx, args: &ArgMap, max_rounds: usize, cancel_after: Option<u32>) -> (Outcome, u32) {
        w.lock().unwrap().probe("compiler-handed-over-as-a-pointer");
        resolve_plain(w, tx, args, &mut self.0, max_rounds, cancel_after)
    }
}

pub trait ThroughPointee {
    fn resolve(&mut self, w: &W, tx: &tir::Tx, args: &ArgMap, max_rounds: usize, cancel_after: Option<u32>) -> (Outcome, u32);
}

impl<'a> ThroughPointee for Handle<'a> {
    fn resolve(&mut self, w: &W, tx: &tir::Tx, args: &ArgMap, max_rounds: usize, cancel_after: Option<u32>) -> (Outcome, u32) {
        resolve_plain(w, tx, args, &mut *self.0, max_rounds, cancel_after)
    }
}

// ---------------------------------------------------------------- intent

pub fn q_val(q: &Q, args: &ArgMap) -> Option<i128> {
    match q {
        Q::Lit(n) => Some(*n),
        Q::Param(p) => match args.get(&p.to_lowercase()) {
            Some(ArgValue::Int(n)) => Some(*n),
            _ => None,
        },
    }
}

/// Evaluate an amount expression made of Ada/Tok/fees/min_utxo terms with exact
/// integer arithmetic.  None if a term cannot be evaluated from what is known.
pub fn eval_amount(
    p: &Program,
    a: &Amount,
    args: &ArgMap,
    fee: Option<i128>,
    min_utxo: Option<i128>,
) -> Option<Value> {
    let mut v = Value::new();
    for (neg, term) in &a.0 {
        if let Term::Local(_, inner) = term {
            // a local is its defining amount
            let part = eval_amount(p, inner, args, fee, min_utxo)?;
            for (k, x) in part {
                let e = v.entry(k).or_insert(0i128);
                *e = if *neg { e.checked_sub(x)? } else { e.checked_add(x)? };
            }
            continue;
        }
        let (key, amt): (ClassKey, i128) = match term {
            Term::Ada(q) => (None, q_val(q, args)?),
            Term::Tok(i, q) => (p.tokens[*i].key(), q_val(q, args)?),
            Term::AnyTok(i, name, q) => match args.get(&name.to_lowercase()) {
                Some(ArgValue::Bytes(b)) => (Some((p.tokens[*i].policy.clone(), b.clone())), q_val(q, args)?),
                _ => return None,
            },
            Term::Fees => (None, fee?),
            Term::MinUtxo(_) => (None, min_utxo?),
            Term::Input(_) => return None,
            Term::AdaField(_) => return None,
            Term::Local(..) => unreachable!(),
        };
        let e = v.entry(key).or_insert(0i128);
        *e = if *neg { e.checked_sub(amt)? } else { e.checked_add(amt)? };
    }
    v.retain(|_, x| *x != 0);
    Some(v)
}

#[derive(Clone, Debug)]
pub struct BlockIntent {
    pub name: String,
    pub address: Option<Vec<u8>>,
    pub r#ref: Option<RefKey>,
    /// further admissible references of a hand-built multi-ref query (soundness only)
    pub extra_refs: Vec<RefKey>,
    pub min: Option<Value>,
    pub many: bool,
    pub collateral: bool,
}

impl BlockIntent {
    pub fn combo(&self) -> String {
        let mut s = vec![];
        if self.address.is_some() {
            s.push("from");
        }
        if !self.extra_refs.is_empty() {
            s.push("multi-ref");
        } else if self.r#ref.is_some() {
            s.push("ref");
        }
        match &self.min {
            Some(m) if m.keys().any(|k| k.is_some()) => s.push("tok"),
            Some(m) if !m.is_empty() => s.push("ada"),
            _ => {}
        }
        s.push(if self.many { "many" } else { "single" });
        if self.collateral {
            s.push("collateral");
        }
        s.join("+")
    }
}

pub fn intents(p: &Program, tx: &TxSpec, args: &ArgMap, fee: Option<i128>, min_utxo: Option<i128>) -> Vec<BlockIntent> {
    let mut out = vec![];
    for (spec, coll) in tx
        .inputs
        .iter()
        .map(|i| (i, false))
        .chain(tx.collateral.iter().map(|c| (c, true)))
    {
        let r#ref = spec.ref_param.as_ref().and_then(|r| match args.get(&r.to_lowercase()) {
            Some(ArgValue::UtxoRef(x)) => Some(rk(x)),
            _ => None,
        });
        out.push(BlockIntent {
            name: spec.name.to_lowercase(),
            address: spec.from.map(|i| p.parties[i].addr.clone()),
            r#ref,
            extra_refs: vec![],
            min: match &spec.min {
                None => Some(Value::new()),
                Some(a) => eval_amount(p, a, args, fee, min_utxo),
            },
            many: spec.many && !coll,
            collateral: coll,
        });
    }
    out
}

/// per-block bindings of a constant (or input-applied) TIR
pub fn bindings_of(tx: &tir::Tx) -> BTreeMap<String, Vec<Utxo>> {
    fn set_of(e: &tir::Expression) -> Option<Vec<Utxo>> {
        match e {
            tir::Expression::UtxoSet(s) => {
                let mut v: Vec<Utxo> = s.iter().cloned().collect();
                v.sort_by_key(|u| rk(&u.r#ref));
                Some(v)
            }
            tir::Expression::EvalParam(p) => match &**p {
                tir::Param::Set(x) => set_of(x),
                _ => None,
            },
            _ => None,
        }
    }
    let mut out = BTreeMap::new();
    for i in &tx.inputs {
        if let Some(s) = set_of(&i.utxos) {
            out.insert(i.name.clone(), s);
        }
    }
    for c in &tx.collateral {
        if let Some(s) = set_of(&c.utxos) {
            out.insert("collateral".to_string(), s);
        }
    }
    out
}

pub fn utxo_value(u: &Utxo) -> Value {
    value_of(&u.assets)
}

// ---------------------------------------------------------------- oracles

/// S1..S6 of C03 on one set of bindings.
pub fn check_selection(
    rep: &mut crate::core::WorldReport,
    intents: &[BlockIntent],
    bindings: &BTreeMap<String, Vec<Utxo>>,
    served: &BTreeMap<RefKey, SimUtxo>,
    ctx: &str,
) {
    for b in intents {
        let Some(sel) = bindings.get(&b.name) else { continue };
        let combo = b.combo();
        if let Some(a) = &b.address {
            for u in sel {
                if &u.address != a {
                    rep.violate(
                        "C03",
                        "S1-addr",
                        combo.clone(),
                        format!(
                            "{ctx}: block `{}` ({combo}) states from={} but was bound {} sitting at {}",
                            b.name,
                            hex::encode(&a[..4]),
                            show_ref(&rk(&u.r#ref)),
                            hex::encode(&u.address[..u.address.len().min(4)])
                        ),
                    );
                }
            }
        }
        if !b.extra_refs.is_empty() {
            for u in sel {
                let k = rk(&u.r#ref);
                if b.r#ref.as_ref() != Some(&k) && !b.extra_refs.contains(&k) {
                    rep.violate(
                        "C03",
                        "S2-ref",
                        combo.clone(),
                        format!("{ctx}: block `{}` ({combo}) lists {} references but was bound {}", b.name, b.extra_refs.len() + b.r#ref.is_some() as usize, show_ref(&k)),
                    );
                }
            }
        } else if let Some(r) = &b.r#ref {
            for u in sel {
                if &rk(&u.r#ref) != r {
                    rep.violate(
                        "C03",
                        "S2-ref",
                        combo.clone(),
                        format!(
                            "{ctx}: block `{}` ({combo}) states ref={} but was bound {}",
                            b.name,
                            show_ref(r),
                            show_ref(&rk(&u.r#ref))
                        ),
                    );
                }
            }
        }
        if !b.many && sel.len() != 1 {
            rep.violate(
                "C03",
                "S3-single",
                combo.clone(),
                format!("{ctx}: single-UTxO block `{}` was bound {} UTxOs", b.name, sel.len()),
            );
        }
        if let Some(min) = &b.min {
            if !b.many {
                for u in sel {
                    if !value_covers(&utxo_value(u), min) {
                        rep.violate(
                            "C03",
                            "S3-single",
                            combo.clone(),
                            format!(
                                "{ctx}: single-UTxO block `{}` min_amount {} not covered by {} holding {}",
                                b.name,
                                show_value(min),
                                show_ref(&rk(&u.r#ref)),
                                show_value(&utxo_value(u))
                            ),
                        );
                    }
                }
            } else {
                let mut sum = Value::new();
                for u in sel {
                    value_add(&mut sum, &utxo_value(u));
                }
                if !value_covers(&sum, min) {
                    rep.violate(
                        "C03",
                        "S4-many",
                        combo.clone(),
                        format!(
                            "{ctx}: multi-UTxO block `{}` min_amount {} not covered by sum {}",
                            b.name,
                            show_value(min),
                            show_value(&sum)
                        ),
                    );
                }
            }
        }
        if b.collateral {
            for u in sel {
                if utxo_value(u).keys().any(|k| k.is_some()) {
                    rep.violate(
                        "C03",
                        "S5-collateral",
                        combo.clone(),
                        format!("{ctx}: collateral bound {} which holds native assets", show_ref(&rk(&u.r#ref))),
                    );
                }
            }
        }
        for u in sel {
            let k = rk(&u.r#ref);
            match served.get(&k) {
                None => rep.violate(
                    "C03",
                    "S6-served",
                    combo.clone(),
                    format!("{ctx}: block `{}` bound {} which the store never served", b.name, show_ref(&k)),
                ),
                Some(s) => {
                    if s.address != u.address || s.value != utxo_value(u) {
                        rep.violate(
                            "C03",
                            "S6-served",
                            combo.clone(),
                            format!("{ctx}: block `{}` bound {} with fields differing from what was served", b.name, show_ref(&k)),
                        );
                    }
                }
            }
        }
    }
}

thread_local! {
    /// the template under resolution has no collateral block but a *regular* input called
    /// `collateral` (tx3 has no reserved words): the binding under that name is a regular one
    pub static COLLATERAL_IS_A_REGULAR_INPUT: std::cell::Cell<bool> = const { std::cell::Cell::new(false) };
}

/// the key under which the collateral block's binding is filed (none when the name belongs to a regular input)
fn collateral_key() -> &'static str {
    if COLLATERAL_IS_A_REGULAR_INPUT.with(|c| c.get()) {
        "\u{0}no-collateral-block"
    } else {
        "collateral"
    }
}

/// D1 of C04: bindings of distinct non-collateral blocks are pairwise disjoint.
pub fn check_disjoint(rep: &mut crate::core::WorldReport, bindings: &BTreeMap<String, Vec<Utxo>>, ctx: &str) {
    let names: Vec<&String> = bindings.keys().filter(|n| n.as_str() != collateral_key()).collect();
    for (i, a) in names.iter().enumerate() {
        for b in names.iter().skip(i + 1) {
            let sa: BTreeSet<RefKey> = bindings[*a].iter().map(|u| rk(&u.r#ref)).collect();
            for u in &bindings[*b] {
                if sa.contains(&rk(&u.r#ref)) {
                    rep.violate(
                        "C04",
                        "D1-disjoint",
                        "shared-utxo",
                        format!("{ctx}: blocks `{a}` and `{b}` were both bound {}", show_ref(&rk(&u.r#ref))),
                    );
                }
            }
        }
    }
}

/// D2 of C04: the body's input list is the disjoint union of the bindings.
pub fn check_body_inputs(
    rep: &mut crate::core::WorldReport,
    bindings: &BTreeMap<String, Vec<Utxo>>,
    d: &crate::txread::DTx,
    ctx: &str,
) {
    let mut want: Vec<RefKey> = bindings
        .iter()
        .filter(|(n, _)| n.as_str() != collateral_key())
        .flat_map(|(_, v)| v.iter().map(|u| rk(&u.r#ref)))
        .collect();
    want.sort();
    let mut got = d.inputs.clone();
    got.sort();
    let mut dedup = got.clone();
    dedup.dedup();
    if dedup.len() != got.len() {
        rep.violate(
            "C04",
            "D2-body",
            "duplicate-input",
            format!("{ctx}: body lists an input twice: {:?}", got.iter().map(show_ref).collect::<Vec<_>>()),
        );
    } else if got != want {
        rep.violate(
            "C04",
            "D2-body",
            "inputs-differ",
            format!(
                "{ctx}: body inputs {:?} differ from the union of the selections {:?}",
                got.iter().map(show_ref).collect::<Vec<_>>(),
                want.iter().map(show_ref).collect::<Vec<_>>()
            ),
        );
    }
    if let Some(c) = bindings.get(collateral_key()) {
        let mut wantc: Vec<RefKey> = c.iter().map(|u| rk(&u.r#ref)).collect();
        wantc.sort();
        let mut gotc = d.collateral.clone().unwrap_or_default();
        gotc.sort();
        if wantc != gotc {
            rep.violate(
                "C04",
                "D2-body",
                "collateral-differ",
                format!("{ctx}: body collateral differs from the collateral selection"),
            );
        }
    }
}

/// BAL of C02: consumed value = produced value + fee, class by class.
pub fn check_balance(
    rep: &mut crate::core::WorldReport,
    d: &crate::txread::DTx,
    served: &BTreeMap<RefKey, SimUtxo>,
    shape_hint: &str,
    ctx: &str,
) {
    let mut consumed = Value::new();
    // the ledger treats the inputs as a set: a UTxO listed twice is still spent once
    let mut distinct: Vec<&RefKey> = d.inputs.iter().collect();
    distinct.sort();
    distinct.dedup();
    for i in distinct {
        match served.get(i) {
            Some(u) => value_add(&mut consumed, &u.value),
            None => return, // C03/S6 or C04 speak about this
        }
    }
    let mint = crate::txread::mint_value(d);
    value_add(&mut consumed, &mint);
    if let Some(wd) = &d.withdrawals {
        for (_, amt) in wd {
            let mut v = Value::new();
            v.insert(None, *amt);
            value_add(&mut consumed, &v);
        }
    }
    let mut produced = Value::new();
    for o in &d.outputs {
        value_add(&mut produced, &crate::txread::value_of_output(o));
    }
    let mut fee = Value::new();
    fee.insert(None, d.fee + d.donation.unwrap_or(0));
    value_add(&mut produced, &fee);
    if consumed != produced {
        let mut diff = consumed.clone();
        value_sub(&mut diff, &produced);
        let two64: i128 = 1i128 << 64;
        if let Some(l) = diff.get(&None) {
            let shape = if l % two64 == 0 && *l < 0 {
                "lovelace:negative-output-wrapped-mod-2^64"
            } else if l % two64 == 0 {
                "lovelace:oversized-output-wrapped-mod-2^64"
            } else {
                "lovelace:other"
            };
            rep.violate(
                "C02",
                "BAL-lovelace",
                if shape_hint.is_empty() { shape.to_string() } else { shape_hint.to_string() },
                format!(
                    "{ctx}: consumed {} != produced+fee {} (difference {})",
                    show_value(&consumed),
                    show_value(&produced),
                    show_value(&diff)
                ),
            );
        }
        let tok: Vec<i128> = diff.iter().filter(|(k, _)| k.is_some()).map(|(_, v)| *v).collect();
        if !tok.is_empty() {
            let shape = if tok.iter().all(|v| *v < 0) {
                "token:negative-output-dropped"
            } else {
                "token:other"
            };
            rep.violate(
                "C02",
                "BAL-token",
                if shape_hint.is_empty() { shape.to_string() } else { shape_hint.to_string() },
                format!(
                    "{ctx}: consumed {} != produced+fee {} (difference {})",
                    show_value(&consumed),
                    show_value(&produced),
                    show_value(&diff)
                ),
            );
        }
    }
}

pub struct FeeFacts {
    pub cap_reached: bool,
    pub converged: bool,
    pub compiles: usize,
}

/// F1..F3 of C05 on a successful resolution.
pub fn check_fee(
    rep: &mut crate::core::WorldReport,
    pp: &PPCfg,
    max_rounds: usize,
    res_rounds: &[RoundRec],
    out: &Compiled,
    d: &crate::txread::DTx,
    ctx: &str,
) -> FeeFacts {
    let cap = max_rounds.max(3).saturating_add(2);
    let oks: Vec<(&RoundRec, &Compiled)> = res_rounds
        .iter()
        .filter_map(|r| r.out.as_ref().ok().map(|c| (r, c)))
        .collect();
    let compiles = res_rounds.len();
    let cap_reached = compiles >= cap;
    let n = oks.len();
    let converged = n >= 2 && oks[n - 1].1.payload == oks[n - 2].1.payload && oks[n - 1].1.fee == oks[n - 2].1.fee;
    let facts = FeeFacts {
        cap_reached,
        converged,
        compiles,
    };
    // chain: fee applied in round r is the fee reported by round r-1 (0 in the first round);
    // every round's reported fee follows the formula
    let mut chain_ok = true;
    let mut prev_fee: i128 = 0;
    for (i, (r, c)) in oks.iter().enumerate() {
        let fee_in = match &r.tir.fees {
            tir::Expression::Assets(a) if a.len() == 1 => match &a[0].amount {
                tir::Expression::Number(n) => Some(*n),
                _ => None,
            },
            tir::Expression::Number(n) => Some(*n),
            _ => None,
        };
        if fee_in != Some(prev_fee) {
            chain_ok = false;
            rep.violate(
                "C05",
                "F3-chain",
                format!("round{}", i.min(3)),
                format!("{ctx}: round {i} was evaluated with fee {fee_in:?} but the previous round reported {prev_fee}"),
            );
        }
        let want = pp.coef as i128 * c.payload.len() as i128 + pp.constant as i128 + pp.margin() as i128;
        if c.fee as i128 != want {
            rep.violate(
                "C05",
                "F2-formula",
                "any-round",
                format!(
                    "{ctx}: round {i} reported fee {} but a*len+b+margin = {}*{}+{}+{} = {want}",
                    c.fee,
                    pp.coef,
                    c.payload.len(),
                    pp.constant,
                    pp.margin()
                ),
            );
        }
        prev_fee = c.fee as i128;
    }
    // the returned transaction is the last successfully compiled round
    if let Some((_, last)) = oks.last() {
        if last.payload != out.payload || last.fee != out.fee {
            rep.violate(
                "C05",
                "F3-round",
                "not-last-round",
                format!("{ctx}: the returned transaction is not the one compiled in the last round"),
            );
        }
    }
    let want = pp.coef as i128 * out.payload.len() as i128 + pp.constant as i128 + pp.margin() as i128;
    if out.fee as i128 != want {
        rep.violate(
            "C05",
            "F2-formula",
            "returned",
            format!("{ctx}: reported fee {} != {}*{}+{}+{}", out.fee, pp.coef, out.payload.len(), pp.constant, pp.margin()),
        );
    }
    if d.fee != out.fee as i128 {
        let shape = if cap_reached && !converged && chain_ok {
            "round-cap-no-fixed-point"
        } else if converged {
            "converged"
        } else {
            "early-return"
        };
        rep.violate(
            "C05",
            "F1-body",
            shape,
            format!(
                "{ctx}: body carries fee {} but the caller is told {} (payload {} bytes, {} compile rounds, cap {})",
                d.fee,
                out.fee,
                out.payload.len(),
                compiles,
                cap
            ),
        );
    }
    facts
}

/// M1..M5 of C10 on one emitted transaction.
pub fn check_wellformed(
    rep: &mut crate::core::WorldReport,
    pp: &PPCfg,
    out: &Compiled,
    d: &crate::txread::DTx,
    // plutus languages of the scripts the transaction itself attaches (language ids 0..2); empty:
    // it attaches none (the scripts that run sit in reference inputs)
    attached: &[u8],
    ctx: &str,
) {
    if let Err(e) = crate::txread::pallas_accepts(&out.payload) {
        rep.violate("C10", "M1-decode", "pallas", format!("{ctx}: standard decoder rejects payload: {e}"));
    }
    let h = crate::txread::blake2b256(&d.body_raw);
    if h != out.hash {
        rep.violate(
            "C10",
            "M2-hash",
            "body-digest",
            format!("{ctx}: reported hash {} != blake2b256(body bytes) {}", hex::encode(&out.hash), hex::encode(&h)),
        );
    }
    match (&d.aux_raw, &d.aux_hash) {
        (None, None) => {}
        (Some(raw), Some(hh)) => {
            if &crate::txread::blake2b256(raw) != hh {
                rep.violate("C10", "M3-aux", "digest", format!("{ctx}: auxiliary_data_hash is not the digest of the auxiliary data carried"));
            }
        }
        (Some(_), None) => rep.violate("C10", "M3-aux", "missing", format!("{ctx}: auxiliary data present but no auxiliary_data_hash")),
        (None, Some(_)) => rep.violate("C10", "M3-aux", "spurious", format!("{ctx}: auxiliary_data_hash present but no auxiliary data")),
    }
    // "present exactly when metadata is present", "no empty entries": auxiliary data whose metadata map
    // has no label carries nothing, yet costs a hash in the body
    if d.aux_raw.is_some() {
        if let Some(m) = &d.metadata {
            if m.is_empty() {
                rep.violate("C10", "M4-metadata", "empty map", format!("{ctx}: the auxiliary data carries a metadata map without a single label"));
                if d.aux_hash.is_some() {
                    rep.violate("C10", "M3-aux", "spurious", format!("{ctx}: auxiliary_data_hash present although no metadata is carried (empty map)"));
                }
            }
        }
    }
    let has_red = !d.redeemers.is_empty();
    match (has_red, &d.sdh) {
        (false, None) => {}
        (true, None) => rep.violate("C10", "M3-sdh", "missing", format!("{ctx}: redeemers present but no script_data_hash")),
        (false, Some(_)) => rep.violate("C10", "M3-sdh", "spurious", format!("{ctx}: script_data_hash present but no redeemers")),
        (true, Some(hh)) => {
            // the language view is that of the scripts that run: the attached witnesses' language
            // (several languages: any one of them is accepted here), Plutus V3 when none is attached
            // (the tree's stated default for scripts referenced rather than attached) - never the
            // language of a script the transaction merely publishes
            let candidates: Vec<u8> = if attached.is_empty() { vec![2] } else { attached.to_vec() };
            let mut ok = false;
            for v in candidates {
                if v < 3 && pp.cost_models[v as usize] && &crate::txread::script_data_hash(d, v, &cost_model(v, pp.cm_salt)) == hh {
                    ok = true;
                }
            }
            if !ok {
                rep.violate("C10", "M3-sdh", "digest", format!("{ctx}: script_data_hash matches no language view of the configured cost models"));
            }
        }
    }
    for (field, what) in &d.problems {
        let f = field.split(|c| c == '[' || c == '.').next().unwrap_or(field);
        rep.violate("C10", &format!("M4-{f}"), what.clone(), format!("{ctx}: {field}: {what}"));
    }
    let want = if pp.mainnet { 1 } else { 0 };
    if d.network_id != Some(want) {
        rep.violate("C10", "M5-net", "network-id", format!("{ctx}: network_id {:?} but configured network is {want}", d.network_id));
    }
}

/// ECHO clauses of C02: fields into which the generator placed an integer verbatim.
pub fn check_echo(
    rep: &mut crate::core::WorldReport,
    p: &Program,
    tx: &TxSpec,
    args: &ArgMap,
    d: &crate::txread::DTx,
    pp: &PPCfg,
    ctx: &str,
) {
    // mint: per token, sum(mints) - sum(burns)
    let mut want = Value::new();
    let mut known = true;
    for m in &tx.mints {
        match q_val(&m.q, args) {
            Some(v) => *want.entry(p.tokens[m.tok].key()).or_insert(0) += v,
            None => known = false,
        }
    }
    for b in &tx.burns {
        match q_val(&b.q, args) {
            Some(v) => *want.entry(p.tokens[b.tok].key()).or_insert(0) -= v,
            None => known = false,
        }
    }
    if known && (!tx.mints.is_empty() || !tx.burns.is_empty()) {
        want.retain(|_, x| *x != 0);
        let got = crate::txread::mint_value(d);
        // the compiler sums mints and burns per asset in 64-bit fields
        let mut agg_overflow = false;
        for tok in 0..p.tokens.len() {
            // per asset class: two declared assets may be one class (same policy, same - e.g. empty - name)
            let same = |i: usize| p.tokens[i].key() == p.tokens[tok].key();
            let m: i128 = tx.mints.iter().filter(|m| same(m.tok)).filter_map(|m| q_val(&m.q, args)).fold(0i128, |a, x| a.saturating_add(x));
            let b: i128 = tx.burns.iter().filter(|m| same(m.tok)).filter_map(|m| q_val(&m.q, args)).fold(0i128, |a, x| a.saturating_add(x));
            if m > i64::MAX as i128 || b > (i64::MAX as i128) + 1 {
                agg_overflow = true;
            }
        }
        if got != want {
            rep.violate(
                "C02",
                "ECHO-mint",
                if agg_overflow { "sum-of-amounts-overflows-i64".to_string() } else { mint_shape(&want) },
                format!("{ctx}: template mints {} but the body's mint field holds {}", show_value(&want), show_value(&got)),
            );
        }
        // every individual mint/burn quantity must be representable in the ledger field
        for (m, is_burn) in tx.mints.iter().map(|m| (m, false)).chain(tx.burns.iter().map(|m| (m, true))) {
            if let Some(v) = q_val(&m.q, args) {
                let max = if is_burn { (i64::MAX as i128) + 1 } else { i64::MAX as i128 };
                if v <= 0 || v > max {
                    rep.violate(
                        "C02",
                        "ECHO-mint",
                        format!("out-of-range:{}", range_class(v)),
                        format!("{ctx}: {} quantity {v} cannot be held by the ledger field, yet resolution succeeded", if is_burn { "burn" } else { "mint" }),
                    );
                }
            }
        }
    }
    if let Some((since, until)) = &tx.validity {
        for (which, e, got) in [("since", since, d.start), ("until", until, d.ttl)] {
            let exact = match e {
                Some(SlotExpr::Q(q)) => q_val(q, args),
                // the slot of a time is cursor.slot + (time - cursor.time) / 1000 in whole slots;
                // negative times are refused by the compiler before it gets that far
                Some(SlotExpr::FromTime(q)) => q_val(q, args).filter(|t| *t >= 0).and_then(|t| {
                    let diff = t.checked_sub(pp.time as i128)?;
                    (pp.slot as i128).checked_add(diff / 1000)
                }),
                _ => None,
            };
            {
                if let Some(v) = exact {
                    if got != Some(v) {
                        rep.violate(
                            "C02",
                            "ECHO-validity",
                            range_class(v),
                            format!("{ctx}: template says {which}_slot = {v} but the body holds {got:?}"),
                        );
                    }
                }
            }
        }
    }
    for (key, mv) in &tx.metadata {
        if let MetaVal::Int(q) = mv {
            if let Some(v) = q_val(q, args) {
                let got = d
                    .metadata
                    .as_ref()
                    .and_then(|m| m.iter().find(|(k, _)| *k == *key as i128))
                    .and_then(|(_, val)| crate::txread::as_int(val));
                if got != Some(v) {
                    rep.violate(
                        "C02",
                        "ECHO-metadata",
                        range_class(v),
                        format!("{ctx}: metadata label {key} should hold {v} but holds {got:?}"),
                    );
                }
            }
        }
    }
    for dct in &tx.directives {
        match dct {
            Directive::Withdrawal { amount, .. } => {
                if let Some(v) = q_val(amount, args) {
                    let got = d.withdrawals.as_ref().and_then(|w| w.first()).map(|x| x.1);
                    if got != Some(v) {
                        rep.violate(
                            "C02",
                            "ECHO-withdrawal",
                            range_class(v),
                            format!("{ctx}: withdrawal amount should be {v} but the body holds {got:?}"),
                        );
                    }
                }
            }
            Directive::Donation(q, _) => {
                if let Some(v) = q_val(q, args) {
                    if d.donation != Some(v) {
                        rep.violate(
                            "C02",
                            "ECHO-donation",
                            range_class(v),
                            format!("{ctx}: donation should be {v} but the body holds {:?}", d.donation),
                        );
                    }
                }
            }
            _ => {}
        }
    }
    // datum integer of Rec { a: q, .. }
    // outputs line up with the template only when none is optional and no publish output is appended
    let live: Vec<&OutputSpec> = tx.outputs.iter().collect();
    let aligned = !tx.outputs.iter().any(|o| o.optional) && !tx.directives.iter().any(|x| matches!(x, Directive::Publish { .. }));
    if aligned && live.len() == d.outputs.len() {
        for (spec, o) in live.iter().zip(d.outputs.iter()) {
            // (constructor tag, value of the first field) the datum must carry
            let want: Option<(u64, Option<i128>)> = match &spec.datum {
                Some(DatumSpec::Rec(q)) | Some(DatumSpec::Spread(q, _)) => Some((121, q_val(q, args))),
                Some(DatumSpec::Misc { shape: 0, q, .. }) | Some(DatumSpec::Misc { shape: 3, q, .. }) => Some((121, q_val(q, args).and_then(|v| 0i128.checked_sub(v)))),
                Some(DatumSpec::Misc { shape: 2, q, .. }) => Some((122, q_val(q, args))),
                Some(DatumSpec::Misc { shape: 4, q, .. }) => {
                    // an asset in a datum: however it is laid out, the quantity written is the quantity read
                    if let (Some(v), Some(dat)) = (q_val(q, args), &o.datum) {
                        fn ints(v: &ciborium::value::Value, out: &mut Vec<i128>) {
                            if let Some(n) = crate::txread::as_int(v) {
                                out.push(n);
                                return;
                            }
                            match v {
                                ciborium::value::Value::Array(a) => a.iter().for_each(|x| ints(x, out)),
                                ciborium::value::Value::Map(m) => m.iter().for_each(|(k, x)| {
                                    ints(k, out);
                                    ints(x, out)
                                }),
                                ciborium::value::Value::Tag(_, x) => ints(x, out),
                                other => {
                                    if let Some(n) = crate::txread::as_int(other) {
                                        out.push(n)
                                    }
                                }
                            }
                        }
                        let mut found = vec![];
                        ints(dat, &mut found);
                        rep.probe("echo-datum-asset");
                        if !found.contains(&v) {
                            rep.violate("C02", "ECHO-datum", format!("asset-quantity/{}", range_class(v)), format!("{ctx}: the datum holds an asset of quantity {v} but the integers it decodes to are {found:?}"));
                        }
                    }
                    None
                }
                _ => None,
            };
            if let Some((tag, v)) = want {
                if let Some(v) = v {
                    rep.probe(&format!("echo-datum:{}", range_class(v)));
                    let got = match &o.datum {
                        Some(ciborium::value::Value::Tag(tg, inner)) if *tg == tag => inner
                            .as_array()
                            .and_then(|a| a.first())
                            .and_then(crate::txread::as_int),
                        _ => None,
                    };
                    if got != Some(v) {
                        rep.violate(
                            "C02",
                            "ECHO-datum",
                            range_class(v),
                            format!("{ctx}: datum field `a` should be {v} but decodes to {got:?}"),
                        );
                    }
                }
            }
        }
    }
}

/// Exact value of every output's amount expression (template order), or None where a term cannot
/// be evaluated (min_utxo, unknown argument, overflow of the evaluator itself).
pub fn expected_outputs(
    p: &Program,
    tx: &TxSpec,
    args: &ArgMap,
    fee: i128,
    bindings: &BTreeMap<String, Vec<Utxo>>,
) -> Vec<Option<Value>> {
    tx.outputs
        .iter()
        .map(|o| {
            let mut v = Value::new();
            for (neg, term) in &o.amount.0 {
                let part: Value = match term {
                    Term::Input(name) => {
                        let sel = bindings.get(&name.to_lowercase())?;
                        let mut sum = Value::new();
                        for u in sel {
                            for (k, x) in utxo_value(u) {
                                let e = sum.entry(k).or_insert(0i128);
                                *e = e.checked_add(x)?;
                            }
                        }
                        sum
                    }
                    Term::AdaField(name) => {
                        // the datum's first field of the one UTxO bound to that input
                        let sel = bindings.get(&name.to_lowercase())?;
                        if sel.len() != 1 {
                            return None;
                        }
                        let n = match &sel[0].datum {
                            Some(tir::Expression::Struct(st)) => match st.fields.first() {
                                Some(tir::Expression::Number(n)) => *n,
                                _ => return None,
                            },
                            _ => return None,
                        };
                        let mut one = Value::new();
                        if n != 0 {
                            one.insert(None, n);
                        }
                        one
                    }
                    Term::MinUtxo(_) => return None,
                    other => eval_amount(p, &Amount(vec![(false, other.clone())]), args, Some(fee), None)?,
                };
                for (k, x) in part {
                    let e = v.entry(k).or_insert(0i128);
                    *e = if *neg { e.checked_sub(x)? } else { e.checked_add(x)? };
                }
            }
            v.retain(|_, x| *x != 0);
            Some(v)
        })
        .collect()
}

/// ECHO-output of C02: every output of the emitted transaction holds exactly the value of the
/// amount expression the generator wrote for it, evaluated with big-integer arithmetic from the
/// arguments, the fee in the body and the UTxOs bound to the input blocks in the returned round.
/// Judged only when every component of the expected value fits its ledger field (the out-of-range
/// cases are BAL's), when no term is a min_utxo(..) and when the emitted outputs can be lined up
/// with the template's (optional outputs are dropped exactly when they hold nothing; publish
/// outputs are appended).
pub fn check_echo_outputs(
    rep: &mut crate::core::WorldReport,
    p: &Program,
    tx: &TxSpec,
    args: &ArgMap,
    d: &crate::txread::DTx,
    bindings: &BTreeMap<String, Vec<Utxo>>,
    ctx: &str,
) {
    let eval = |a: &Amount| -> Option<Value> {
        let mut v = Value::new();
        for (neg, term) in &a.0 {
            let part: Value = match term {
                Term::Input(name) => {
                    let sel = bindings.get(&name.to_lowercase())?;
                    let mut sum = Value::new();
                    for u in sel {
                        for (k, x) in utxo_value(u) {
                            let e = sum.entry(k).or_insert(0i128);
                            *e = e.checked_add(x)?;
                        }
                    }
                    sum
                }
                Term::AdaField(name) => {
                    // the datum's first field of the one UTxO bound to that input
                    let sel = bindings.get(&name.to_lowercase())?;
                    if sel.len() != 1 {
                        return None;
                    }
                    let n = match &sel[0].datum {
                        Some(tir::Expression::Struct(st)) => match st.fields.first() {
                            Some(tir::Expression::Number(n)) => *n,
                            _ => return None,
                        },
                        _ => return None,
                    };
                    let mut one = Value::new();
                    if n != 0 {
                        one.insert(None, n);
                    }
                    one
                }
                Term::MinUtxo(_) => return None,
                other => eval_amount(p, &Amount(vec![(false, other.clone())]), args, Some(d.fee), None)?,
            };
            for (k, x) in part {
                let e = v.entry(k).or_insert(0i128);
                *e = if *neg { e.checked_sub(x)? } else { e.checked_add(x)? };
            }
        }
        v.retain(|_, x| *x != 0);
        Some(v)
    };
    let npublish = tx.directives.iter().filter(|x| matches!(x, Directive::Publish { .. })).count();
    // expected outputs in template order; None = cannot be evaluated
    let mut expected: Vec<(usize, Option<Value>)> = vec![];
    for (i, o) in tx.outputs.iter().enumerate() {
        let v = eval(&o.amount);
        if o.optional {
            match &v {
                Some(x) if x.is_empty() => continue, // dropped
                Some(_) => {}
                None => return, // presence unknown: nothing can be lined up
            }
        }
        expected.push((i, v));
    }
    if expected.len() + npublish != d.outputs.len() {
        // an optional output present / absent against expectation shows up as a count mismatch
        if tx.outputs.iter().all(|o| eval(&o.amount).is_some()) {
            let in_range = expected.iter().all(|(_, v)| v.as_ref().map(|x| x.values().all(|a| *a >= 0 && *a <= u64::MAX as i128)).unwrap_or(false));
            if in_range {
                rep.violate(
                    "C02",
                    "ECHO-output",
                    "output-count",
                    format!("{ctx}: the template denotes {} outputs (+{npublish} published) but the body carries {}", expected.len(), d.outputs.len()),
                );
            }
        }
        return;
    }
    for ((i, want), got) in expected.iter().zip(d.outputs.iter()) {
        let Some(want) = want else { continue };
        if want.values().any(|a| *a < 0 || *a > u64::MAX as i128) {
            continue; // BAL's business (known findings live there)
        }
        let got = crate::txread::value_of_output(got);
        if &got != want {
            let spec = &tx.outputs[*i];
            let kind = if spec.amount.0.iter().any(|(_, t)| matches!(t, Term::Input(_))) {
                "change"
            } else if spec.amount.0.iter().any(|(_, t)| matches!(t, Term::Fees)) {
                "fee-dependent"
            } else {
                "fixed"
            };
            rep.violate(
                "C02",
                "ECHO-output",
                kind,
                format!("{ctx}: output #{i} should hold {} (its amount expression evaluated exactly) but the body holds {}", show_value(want), show_value(&got)),
            );
        }
    }
    rep.probe("echo-outputs-judged");
}

pub fn range_class(v: i128) -> String {
    if v < -(1i128 << 64) {
        "below -2^64".into()
    } else if v < -(1i128 << 63) {
        "[-2^64,-2^63)".into()
    } else if v < 0 {
        "[-2^63,0)".into()
    } else if v == 0 {
        "zero".into()
    } else if v <= i64::MAX as i128 {
        "(0,2^63)".into()
    } else if v <= u64::MAX as i128 {
        "[2^63,2^64)".into()
    } else {
        "at or above 2^64".into()
    }
}

fn mint_shape(want: &Value) -> String {
    if want.is_empty() {
        "cancelling".into()
    } else {
        let worst = want.values().map(|v| range_class(*v)).max().unwrap_or_default();
        format!("net:{worst}")
    }
}
