//! World state shared by the executor and the SimStore: tape, ledger, clock,
//! event queue, fault plan, event log, counters.

use std::collections::{BTreeMap, BTreeSet, HashSet};
use std::future::Future;
use std::pin::Pin;
use std::sync::{Arc, Mutex};
use std::task::{Context, Poll};

use tx3_resolver::{Error as RError, UtxoPattern, UtxoStore};
use tx3_tir::model::core::{UtxoRef, UtxoSet};

use crate::chain::*;
use crate::tape::{Digest, Tape};

#[derive(Clone, Debug, Default)]
pub struct FaultCfg {
    pub lat_max: u64,
    pub err_permille: u64,
    pub err_window: Option<(u64, u64)>,
    pub err_at_call: Option<u64>,
    pub stale_permille: u64,
    pub churn_permille: u64,
    pub stall_permille: u64,
    pub byz_permille: u64,
    pub client_timeout: u64,
    /// simulated real time per tick, in nanoseconds (0: 1 ms; see `tick_len_ns`)
    pub tick_ns: u64,
}

impl FaultCfg {
    /// how much real time passes per tick of the world, as the code under test would see it on a clock
    pub fn tick_len_ns(&self) -> u64 {
        if self.tick_ns == 0 {
            1_000_000
        } else {
            self.tick_ns
        }
    }
    pub fn any_fault(&self) -> bool {
        self.err_permille > 0
            || self.err_at_call.is_some()
            || self.stale_permille > 0
            || self.churn_permille > 0
            || self.stall_permille > 0
            || self.byz_permille > 0
    }
    pub fn describe(&self) -> String {
        format!(
            "lat<={} err={}‰{:?} err_at={:?} stale={}‰ churn={}‰ stall={}‰ byz={}‰ timeout={} tick={}ns",
            self.lat_max,
            self.err_permille,
            self.err_window,
            self.err_at_call,
            self.stale_permille,
            self.churn_permille,
            self.stall_permille,
            self.byz_permille,
            self.client_timeout,
            self.tick_len_ns()
        )
    }
}

#[derive(Clone, Debug)]
pub enum ChainEvent {
    Spend(RefKey),
    Create { address: Vec<u8>, value: Value },
    Tip(u64),
}

#[derive(Default)]
pub struct EventLog {
    pub digest: Digest,
    pub lines: Vec<String>,
    pub n: u64,
}

impl EventLog {
    pub fn push(&mut self, tick: u64, line: String) {
        self.digest.u64(tick);
        self.digest.str(&line);
        self.n += 1;
        if self.lines.len() < 400 {
            self.lines.push(format!("t={} {}", tick, line));
        }
    }
}

pub struct World {
    pub tape: Tape,
    pub chain: SimChain,
    pub now: u64,
    pub seq: u64,
    pub cfg: FaultCfg,
    pub calls: u64,
    pub wakes: BTreeSet<(u64, u64)>,
    pub events: BTreeMap<(u64, u64), ChainEvent>,
    pub log: EventLog,
    pub fired: BTreeMap<&'static str, u64>,
    pub probes: BTreeMap<&'static str, u64>,
    pub served: BTreeMap<RefKey, SimUtxo>,
    pub recent: Vec<RefKey>,
    pub addr_pool: Vec<Vec<u8>>,
    pub value_pool: Vec<Value>,
    pub ledger_moved: bool,
    pub cancel_at_tick: Option<u64>,
    /// simulated real time at tick 0 of this world, and a step of the wall clock (REALTIME only; the
    /// monotonic clock never goes back) that takes effect from a given tick on
    pub clock_base_ns: u64,
    pub realtime_step: Option<(u64, i64)>,
    /// per resolution bookkeeping (reset by `begin_resolution`)
    pub res_calls: u64,
    pub res_faults: u64,
    pub res_view_faults: u64,
    pub fetch_short: u64,
    pub fetch_reqs: Vec<Vec<RefKey>>,
    pub fetch_answers: Vec<Vec<RefKey>>,
}

pub type W = Arc<Mutex<World>>;

impl World {
    pub fn new(tape: Tape) -> Self {
        World {
            tape,
            chain: SimChain::default(),
            now: 0,
            seq: 0,
            cfg: FaultCfg::default(),
            calls: 0,
            wakes: BTreeSet::new(),
            events: BTreeMap::new(),
            log: EventLog::default(),
            fired: BTreeMap::new(),
            probes: BTreeMap::new(),
            served: BTreeMap::new(),
            recent: vec![],
            addr_pool: vec![],
            value_pool: vec![],
            ledger_moved: false,
            cancel_at_tick: None,
            clock_base_ns: 0,
            realtime_step: None,
            res_calls: 0,
            res_faults: 0,
            res_view_faults: 0,
            fetch_short: 0,
            fetch_reqs: vec![],
            fetch_answers: vec![],
        }
    }

    pub fn into_shared(self) -> W {
        Arc::new(Mutex::new(self))
    }

    pub fn fire(&mut self, kind: &'static str) {
        *self.fired.entry(kind).or_insert(0) += 1;
        self.res_faults += 1;
        // faults that change what the resolver is shown of the ledger (latency and injected errors do not)
        if matches!(kind, "stale" | "byz" | "stall" | "churn-spend" | "churn-create" | "churn-tip") {
            self.res_view_faults += 1;
        }
    }

    pub fn probe(&mut self, kind: &'static str) {
        *self.probes.entry(kind).or_insert(0) += 1;
    }

    pub fn note(&mut self, line: String) {
        let t = self.now;
        self.log.push(t, line);
    }

    pub fn begin_resolution(&mut self) {
        self.res_calls = 0;
        self.res_faults = 0;
        self.res_view_faults = 0;
        self.fetch_short = 0;
        self.fetch_reqs.clear();
        self.fetch_answers.clear();
        self.ledger_moved = false;
        self.cancel_at_tick = None;
        self.wakes.clear();
    }

    fn next_seq(&mut self) -> u64 {
        self.seq += 1;
        self.seq
    }

    pub fn schedule(&mut self, tick: u64, ev: ChainEvent) {
        let s = self.next_seq();
        self.events.insert((tick, s), ev);
    }

    fn apply_event(&mut self, ev: ChainEvent) {
        match ev {
            ChainEvent::Spend(k) => {
                let ok = self.chain.spend(&k);
                self.note(format!("chain: spend {} ({})", show_ref(&k), if ok { "ok" } else { "gone" }));
                if ok {
                    self.ledger_moved = true;
                    self.fire("churn-spend");
                }
            }
            ChainEvent::Create { address, value } => {
                let k = self.chain.create(address.clone(), value.clone(), None);
                self.note(format!(
                    "chain: create {} @{} {}",
                    show_ref(&k),
                    hex::encode(&address[..address.len().min(3)]),
                    show_value(&value)
                ));
                self.ledger_moved = true;
                self.fire("churn-create");
            }
            ChainEvent::Tip(n) => {
                self.chain.tip_slot += n;
                self.note(format!("chain: tip +{}", n));
                self.fire("churn-tip");
            }
        }
    }

    /// Advance simulated time to the next wake, applying chain events on the
    /// way.  Returns false if nothing is queued (the task can never progress).
    pub fn advance(&mut self) -> AdvanceResult {
        loop {
            let w = self.wakes.iter().next().cloned();
            let e = self.events.keys().next().cloned();
            let take_event = match (w, e) {
                (None, None) => return AdvanceResult::Idle,
                (Some(_), None) => false,
                (None, Some(_)) => true,
                (Some(w), Some(e)) => e < w,
            };
            if let Some(c) = self.cancel_at_tick {
                let next_tick = if take_event { e.unwrap().0 } else { w.unwrap().0 };
                if next_tick > c {
                    self.now = c;
                    return AdvanceResult::ClientTimeout;
                }
            }
            if take_event {
                let key = e.unwrap();
                let ev = self.events.remove(&key).unwrap();
                self.now = self.now.max(key.0);
                self.apply_event(ev);
                // events alone never wake the task
                if w.is_none() {
                    return AdvanceResult::Idle;
                }
            } else {
                let key = w.unwrap();
                self.wakes.remove(&key);
                self.now = self.now.max(key.0);
                return AdvanceResult::Woken;
            }
        }
    }

    /// run all remaining chain events (between resolutions)
    pub fn drain_events(&mut self) {
        while let Some(key) = self.events.keys().next().cloned() {
            let ev = self.events.remove(&key).unwrap();
            self.now = self.now.max(key.0);
            self.apply_event(ev);
        }
    }

    fn pick_churn(&mut self) -> Option<ChainEvent> {
        let kind = self.tape.weighted(&[5, 3, 1]);
        match kind {
            0 => {
                // bias: something the resolver has just seen
                let pool: Vec<RefKey> = if !self.recent.is_empty() && self.tape.chance(3, 4) {
                    self.recent.clone()
                } else {
                    self.chain.utxos.keys().cloned().collect()
                };
                if pool.is_empty() {
                    return None;
                }
                let i = self.tape.index(pool.len());
                Some(ChainEvent::Spend(pool[i].clone()))
            }
            1 => {
                if self.addr_pool.is_empty() || self.value_pool.is_empty() {
                    return None;
                }
                let a = self.tape.index(self.addr_pool.len());
                let v = self.tape.index(self.value_pool.len());
                Some(ChainEvent::Create {
                    address: self.addr_pool[a].clone(),
                    value: self.value_pool[v].clone(),
                })
            }
            _ => Some(ChainEvent::Tip(1 + self.tape.draw(20))),
        }
    }
}

#[derive(Debug, PartialEq)]
pub enum AdvanceResult {
    Woken,
    Idle,
    ClientTimeout,
}

#[derive(Clone, Debug)]
enum CallKind {
    ByAddress(Vec<u8>),
    ByPolicy(Vec<u8>),
    ByAsset(Vec<u8>, Vec<u8>),
    Fetch(Vec<RefKey>),
}

#[derive(Clone, Debug)]
enum Answer {
    Refs(BTreeSet<RefKey>),
    Utxos(Vec<(RefKey, SimUtxo)>),
}

struct Plan {
    id: u64,
    kind: CallKind,
    ready_at: u64,
    error: Option<bool>, // Some(transient?)
    snapshot: Option<Answer>,
    byz: bool,
}

fn truthful(chain: &SimChain, kind: &CallKind) -> Answer {
    match kind {
        CallKind::ByAddress(a) => Answer::Refs(chain.by_address(a)),
        CallKind::ByPolicy(p) => Answer::Refs(chain.by_policy(p)),
        CallKind::ByAsset(p, n) => Answer::Refs(chain.by_asset(p, n)),
        CallKind::Fetch(refs) => Answer::Utxos(
            refs.iter()
                .filter_map(|k| chain.utxos.get(k).map(|u| (k.clone(), u.clone())))
                .collect(),
        ),
    }
}

fn show_kind(k: &CallKind) -> String {
    match k {
        CallKind::ByAddress(a) => format!("narrow(addr {})", hex::encode(&a[..a.len().min(3)])),
        CallKind::ByPolicy(p) => format!("narrow(policy {})", hex::encode(&p[..p.len().min(2)])),
        CallKind::ByAsset(p, n) => format!(
            "narrow(asset {}.{})",
            hex::encode(&p[..p.len().min(2)]),
            String::from_utf8_lossy(n)
        ),
        CallKind::Fetch(r) => format!(
            "fetch({})",
            r.iter().map(show_ref).collect::<Vec<_>>().join(",")
        ),
    }
}

fn show_answer(a: &Answer) -> String {
    match a {
        Answer::Refs(r) => format!("{{{}}}", r.iter().map(show_ref).collect::<Vec<_>>().join(",")),
        Answer::Utxos(u) => format!(
            "{{{}}}",
            u.iter()
                .map(|(k, u)| format!("{}={}", show_ref(k), show_value(&u.value)))
                .collect::<Vec<_>>()
                .join(",")
        ),
    }
}

/// The store seen by the real resolver.
#[derive(Clone)]
pub struct SimStore {
    pub w: W,
}

struct Wait {
    w: W,
    at: (u64, u64),
}

impl Future for Wait {
    type Output = ();
    fn poll(self: Pin<&mut Self>, _cx: &mut Context<'_>) -> Poll<()> {
        let w = self.w.lock().unwrap();
        if w.wakes.contains(&self.at) {
            Poll::Pending
        } else {
            Poll::Ready(())
        }
    }
}

impl SimStore {
    pub fn new(w: &W) -> Self {
        SimStore { w: w.clone() }
    }

    fn issue(&self, kind: CallKind) -> (Plan, Wait) {
        let mut guard = self.w.lock().unwrap();
        let w = &mut *guard;
        w.calls += 1;
        w.res_calls += 1;
        let id = w.calls;
        let cfg = w.cfg.clone();
        let lat = if cfg.lat_max > 0 { w.tape.draw(cfg.lat_max + 1) } else { 0 };
        let mut ready_at = w.now + lat;
        let mut error = None;
        let in_window = cfg.err_window.map(|(a, b)| w.now >= a && w.now < b).unwrap_or(true);
        if cfg.err_at_call == Some(w.res_calls) {
            error = Some(false);
        } else if cfg.err_permille > 0 && in_window && w.tape.chance(cfg.err_permille, 1000) {
            error = Some(w.tape.chance(1, 2));
        }
        if error.is_none() && cfg.stall_permille > 0 && w.tape.chance(cfg.stall_permille, 1000) {
            ready_at = w.now + cfg.client_timeout.max(1) * 4 + 1000;
            w.fire("stall");
            if w.cancel_at_tick.is_none() {
                w.cancel_at_tick = Some(w.now + cfg.client_timeout.max(1));
            }
        }
        let mut snapshot = None;
        if error.is_none() && cfg.stale_permille > 0 && w.tape.chance(cfg.stale_permille, 1000) {
            snapshot = Some(truthful(&w.chain, &kind));
        }
        let byz = error.is_none() && cfg.byz_permille > 0 && w.tape.chance(cfg.byz_permille, 1000);
        if cfg.churn_permille > 0 && w.tape.chance(cfg.churn_permille, 1000) {
            if let Some(ev) = w.pick_churn() {
                let tick = if lat > 0 { w.now + 1 + w.tape.draw(lat) } else { w.now };
                w.schedule(tick, ev);
            }
        }
        if lat > 0 {
            w.fire("lat");
        }
        let s = w.next_seq();
        w.wakes.insert((ready_at, s));
        let line = format!("call#{} {} issued lat={}", id, show_kind(&kind), lat);
        w.note(line);
        let wait = Wait {
            w: self.w.clone(),
            at: (ready_at, s),
        };
        (
            Plan {
                id,
                kind,
                ready_at,
                error,
                snapshot,
                byz,
            },
            wait,
        )
    }

    fn complete(&self, plan: Plan) -> Result<Answer, RError> {
        let mut guard = self.w.lock().unwrap();
        let w = &mut *guard;
        let _ = plan.ready_at;
        if let Some(transient) = plan.error {
            w.fire(if transient { "err-transient" } else { "err-store" });
            w.note(format!("call#{} -> Err({})", plan.id, if transient { "transient" } else { "store" }));
            return Err(if transient {
                RError::TransientError(format!("injected at call {}", plan.id))
            } else {
                RError::StoreError(format!("injected at call {}", plan.id))
            });
        }
        let now_truth = truthful(&w.chain, &plan.kind);
        let mut ans = match plan.snapshot {
            Some(snap) => {
                let differs = show_answer(&snap) != show_answer(&now_truth);
                if differs {
                    w.fire("stale");
                    w.ledger_moved = true;
                }
                snap
            }
            None => now_truth,
        };
        if plan.byz {
            ans = crate::byz::corrupt(w, ans_into_pub(ans)).into();
            w.fire("byz");
        }
        match (&plan.kind, &ans) {
            (CallKind::Fetch(req), Answer::Utxos(got)) => {
                w.fetch_reqs.push(req.clone());
                w.fetch_answers.push(got.iter().map(|(k, _)| k.clone()).collect());
                if got.len() < req.len() {
                    w.fetch_short += 1;
                    w.probe("fetch-short");
                }
                for (k, u) in got {
                    w.served.insert(k.clone(), u.clone());
                }
                w.recent = got.iter().map(|(k, _)| k.clone()).collect();
            }
            (_, Answer::Refs(r)) => {
                if r.len() > 50 {
                    w.probe("window-overflow");
                }
                w.recent = r.iter().cloned().collect();
            }
            _ => {}
        }
        w.note(format!("call#{} -> {}", plan.id, show_answer(&ans)));
        Ok(ans)
    }
}

/// public mirror of Answer for the byzantine module
pub enum PubAnswer {
    Refs(BTreeSet<RefKey>),
    Utxos(Vec<(RefKey, SimUtxo)>),
}

fn ans_into_pub(a: Answer) -> PubAnswer {
    match a {
        Answer::Refs(r) => PubAnswer::Refs(r),
        Answer::Utxos(u) => PubAnswer::Utxos(u),
    }
}

impl From<PubAnswer> for Answer {
    fn from(a: PubAnswer) -> Self {
        match a {
            PubAnswer::Refs(r) => Answer::Refs(r),
            PubAnswer::Utxos(u) => Answer::Utxos(u),
        }
    }
}

impl UtxoStore for SimStore {
    async fn narrow_refs(&self, pattern: UtxoPattern<'_>) -> Result<HashSet<UtxoRef>, RError> {
        let kind = match pattern {
            UtxoPattern::ByAddress(a) => CallKind::ByAddress(a.to_vec()),
            UtxoPattern::ByAssetPolicy(p) => CallKind::ByPolicy(p.to_vec()),
            UtxoPattern::ByAsset(p, n) => CallKind::ByAsset(p.to_vec(), n.to_vec()),
        };
        let (plan, wait) = self.issue(kind);
        wait.await;
        match self.complete(plan)? {
            Answer::Refs(r) => Ok(r.iter().map(unrk).collect()),
            Answer::Utxos(_) => unreachable!(),
        }
    }

    async fn fetch_utxos(&self, refs: HashSet<UtxoRef>) -> Result<UtxoSet, RError> {
        let mut keys: Vec<RefKey> = refs.iter().map(rk).collect();
        keys.sort();
        let (plan, wait) = self.issue(CallKind::Fetch(keys));
        wait.await;
        match self.complete(plan)? {
            Answer::Utxos(u) => Ok(u.iter().map(|(k, u)| u.to_utxo(k)).collect()),
            Answer::Refs(_) => unreachable!(),
        }
    }
}
