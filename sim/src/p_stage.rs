//! stage-sim (C07): a TIR, a bag of pending stage operations and a tape-driven
//! scheduler that picks which enabled operation fires next.  Every schedule ends
//! with the same saturation (reduce + enabled compiler passes until nothing
//! changes) and must reach the canonical state of the reference schedule.

use std::collections::{BTreeMap, HashSet};

use serde_json::json;
use tx3_tir::model::core::{Type, Utxo};
use tx3_tir::model::v1beta0 as tir;
use tx3_tir::reduce::{ArgMap, ArgValue};
use tx3_tir::Node as _;

use crate::chain::*;
use crate::core::{Tier, WorldReport};
use crate::exec::guarded;
use crate::gen::*;
use crate::reader::{canon_bytes, compiler_ops_state, to_value};
use crate::rsim::{draw_pparams, make_compiler};
use crate::tape::Tape;

#[derive(Clone, Debug, PartialEq)]
enum Op {
    Args(usize),
    Inputs(usize),
    Fees,
    Compiler,
    Reduce,
}

pub fn world(_tier: Tier, world_no: u64, mut tape: Tape) -> WorldReport {
    let hseed = tape.draw(1 << 32);
    crate::entropy::in_world(hseed, move || {
        let mut rep = WorldReport {
            world: world_no,
            ..Default::default()
        };
        let mut tape = tape;
        if let Err(p) = guarded(|| inner(world_no, &mut tape, &mut rep)) {
            rep.harness_error = Some(format!("harness panic: {} at {}:{}", p.message, p.file, p.line));
        }
        rep.tape = tape.data.clone();
        rep
    })
}

fn type_directed_args(t: &mut Tape, params: &BTreeMap<String, Type>, known: &ArgMap) -> ArgMap {
    let mut out = ArgMap::new();
    for (k, ty) in params {
        if let Some(v) = known.get(k) {
            out.insert(k.clone(), v.clone());
            continue;
        }
        // the argument map is not typed against the declaration; the forms the back end itself accepts
        // for a declared type are in the quantifier (coercion.rs: an address may be Address, Bytes or
        // bech32 text; bytes may be Bytes or text) - ill-typed arguments are not
        if matches!(ty, Type::Address | Type::Bytes) && t.draw(8) == 7 {
            let a = addr_for(t.index(3), false, false);
            let alt = match ty {
                Type::Address => match t.draw(2) {
                    0 => {
                        let hrp = bech32::Hrp::parse("addr_test").unwrap();
                        ArgValue::String(bech32::encode::<bech32::Bech32>(hrp, &a).unwrap())
                    }
                    _ => ArgValue::Bytes(a),
                },
                _ => ArgValue::String("text".into()),
            };
            out.insert(k.clone(), alt);
            continue;
        }
        let v = match ty {
            Type::Int => ArgValue::Int(*t.pick(&[2_000_000i128, 1, 0, 7, 1000])),
            Type::Bool => ArgValue::Bool(t.chance(1, 2)),
            Type::Bytes => ArgValue::Bytes(vec![0x33; *t.pick(&[28usize, 4, 32])]),
            Type::Address => ArgValue::Address(addr_for(t.index(3), false, false)),
            // a reference may name a UTxO that an input block of the same transaction is handed
            // (input UTxOs below are (0x40 + block, index))
            Type::UtxoRef => match t.draw(4) {
                3 => ArgValue::UtxoRef(unrk(&(vec![0x40 + t.draw(2) as u8; 32], t.draw(2) as u32))),
                _ => ArgValue::UtxoRef(unrk(&(vec![0xEE; 32], t.draw(3) as u32))),
            },
            _ => continue,
        };
        out.insert(k.clone(), v);
    }
    // an argument map may carry keys the template does not declare (callers pass one map to many
    // templates): they mean nothing to the template, whatever they are called - including the names
    // of things other stages bind
    if t.draw(6) == 5 {
        let n = 1 + t.index(2);
        for _ in 0..n {
            let k = *t.pick(&["tip_slot", "fees", "min_utxo", "slot_to_time", "time_to_slot", "network", "now", "collateral", "validity", "extra_0"]);
            if !params.contains_key(k) {
                out.insert(k.to_string(), ArgValue::Int(*t.pick(&[4242i128, 0, 1, 170_000])));
            }
        }
    }
    out
}

struct State {
    tx: tir::Tx,
}

enum StepErr {
    Err(String),
    Panic(crate::exec::PanicInfo),
}

thread_local! {
    static PRIMED_BODY: std::cell::RefCell<Option<tx3_cardano::TxBody>> = const { std::cell::RefCell::new(None) };
}

/// a body for the compiler to remember: one input, `n` outputs of different encoded sizes
fn prime(pp: &crate::rsim::PPCfg, n: usize) {
    use tx3_tir::compile::Compiler as _;
    let addr = tir::Expression::Address(addr_for(0, false, false));
    let mut v = Value::new();
    v.insert(None, 50_000_000);
    let u = SimUtxo { address: addr_for(0, false, false), value: v, datum: None, script: None }.to_utxo(&(vec![0x99; 32], 0));
    let ada = |x: i128| tir::Expression::Assets(vec![tir::AssetExpr { policy: tir::Expression::None, asset_name: tir::Expression::None, amount: tir::Expression::Number(x) }]);
    let outputs = (0..n)
        .map(|i| tir::Output {
            address: addr.clone(),
            datum: if i % 2 == 0 { tir::Expression::Bytes(vec![7u8; 40 + 90 * i]) } else { tir::Expression::None },
            amount: ada(2_000_000 + i as i128),
            optional: false,
        })
        .collect();
    let tx = tir::Tx {
        fees: ada(200_000),
        references: vec![],
        inputs: vec![tir::Input { name: "p".into(), utxos: tir::Expression::UtxoSet(HashSet::from([u])), redeemer: tir::Expression::None }],
        outputs,
        validity: None,
        mints: vec![],
        burns: vec![],
        adhoc: vec![],
        collateral: vec![],
        signers: None,
        metadata: vec![],
    };
    let mut c = make_compiler(pp);
    let _ = guarded(|| c.compile(&tx3_tir::encoding::AnyTir::V1Beta0(tx)));
    PRIMED_BODY.with(|b| *b.borrow_mut() = c.latest_tx_body.take());
}

fn apply_op(
    st: &mut State,
    op: &Op,
    arg_parts: &[ArgMap],
    input_parts: &[BTreeMap<String, HashSet<Utxo>>],
    fee: u64,
    pp: &crate::rsim::PPCfg,
) -> Result<(), StepErr> {
    let tx = st.tx.clone();
    let r = guarded(|| -> Result<tir::Tx, String> {
        match op {
            Op::Args(i) => tx3_tir::reduce::apply_args(tx, &arg_parts[*i]).map_err(|e| format!("{e:?}")),
            Op::Inputs(i) => tx3_tir::reduce::apply_inputs(tx, &input_parts[*i]).map_err(|e| format!("{e:?}")),
            Op::Fees => tx3_tir::reduce::apply_fees(tx, fee).map_err(|e| format!("{e:?}")),
            Op::Compiler => {
                let mut c = make_compiler(pp);
                // the instance may have compiled something before (a previous fee round, another
                // request): the same body in every compiler pass of the world
                PRIMED_BODY.with(|b| {
                    if let Some(body) = b.borrow().as_ref() {
                        c.latest_tx_body = Some(body.clone());
                    }
                });
                tx.apply(&mut c).map_err(|e| format!("{e:?}"))
            }
            Op::Reduce => tx3_tir::reduce::reduce(tx).map_err(|e| format!("{e:?}")),
        }
    });
    match r {
        Ok(Ok(t)) => {
            st.tx = t;
            Ok(())
        }
        Ok(Err(e)) => Err(StepErr::Err(e)),
        Err(p) => Err(StepErr::Panic(p)),
    }
}

/// reduce + enabled compiler passes until the canonical state stops changing
fn saturate(
    st: &mut State,
    pp: &crate::rsim::PPCfg,
    trace: &mut Vec<String>,
    rep: &mut WorldReport,
    label: &str,
) -> Result<(), StepErr> {
    for _ in 0..8 {
        let before = canon_bytes(&st.tx);
        apply_op(st, &Op::Reduce, &[], &[], 0, pp)?;
        trace.push("reduce".into());
        check_idempotent(st, pp, rep, label)?;
        let (any, ready) = compiler_ops_state(&to_value(&st.tx));
        if any && ready {
            apply_op(st, &Op::Compiler, &[], &[], 0, pp)?;
            trace.push("compiler-ops".into());
        }
        if canon_bytes(&st.tx) == before {
            break;
        }
    }
    Ok(())
}

fn check_idempotent(st: &State, pp: &crate::rsim::PPCfg, rep: &mut WorldReport, label: &str) -> Result<(), StepErr> {
    let once = canon_bytes(&st.tx);
    let mut again = State { tx: st.tx.clone() };
    match apply_op(&mut again, &Op::Reduce, &[], &[], 0, pp) {
        Ok(()) => {
            if canon_bytes(&again.tx) != once {
                rep.violate(
                    "C07",
                    "O2-idem",
                    "reduce-twice",
                    format!("{label}: reducing an already reduced template changed it"),
                );
            }
            Ok(())
        }
        Err(StepErr::Err(e)) => {
            rep.violate(
                "C07",
                "O2-idem",
                "second-reduce-fails",
                format!("{label}: reducing an already reduced template failed: {e}"),
            );
            Ok(())
        }
        Err(p) => Err(p),
    }
}

fn inner(world_no: u64, t: &mut Tape, rep: &mut WorldReport) {
    let pp = draw_pparams(t, false);
    // half of the worlds run against a compiler that remembers a body (0..4 outputs)
    PRIMED_BODY.with(|b| *b.borrow_mut() = None);
    if t.draw(2) == 1 {
        let n = t.index(5);
        prime(&pp, n);
        rep.fire("compiler-remembers-a-body");
    }
    // ---- template: an example program or a generated one
    let examples = crate::p_entropy::example_sources();
    let use_example = !examples.is_empty() && t.chance(1, 5);
    let (name, source, program) = if use_example {
        let (n, s) = examples[(world_no as usize) % examples.len()].clone();
        (n, s, None)
    } else {
        let profile = *t.pick(&[Profile::Rich, Profile::Fee, Profile::Selection, Profile::Boundary]);
        let rich = t.chance(1, 3);
        let datum_bias = t.chance(1, 3);
        let p = gen_program(
            t,
            &GenCfg {
                profile,
                mainnet: false,
                max_txs: 2,
                force_min_utxo: None,
                rich_directives: rich,
                optional_bias: false,
            datum_bias,
            },
        );
        (format!("generated-{world_no}"), p.source(), Some(p))
    };
    let lowered = match guarded(|| crate::front::lower_all(&source)) {
        Ok(Ok(x)) if !x.is_empty() => x,
        other => {
            if use_example {
                rep.sample = Some(json!({"program": name, "skipped": "front end does not take this example"}));
                return;
            }
            rep.harness_error = Some(format!("front end rejected generated program: {other:?}\n{source}"));
            return;
        }
    };
    let names: Vec<&String> = lowered.keys().collect();
    let txname = names[t.index(names.len())].clone();
    let tx0 = lowered[&txname].clone();

    // ---- arguments (split into up to three partial applications), inputs, fee
    let params = tx3_tir::reduce::find_params(&tx0);
    let mut known = ArgMap::new();
    if let Some(p) = &program {
        let spec = p.txs.iter().find(|x| x.name == txname).unwrap();
        let dist = if t.chance(1, 6) { ArgDist::Boundary } else { ArgDist::Small };
        let plan = gen_args(t, p, spec, &SimChain::default(), dist);
        known = plan.args;
    }
    // every argument the program's signature names (reported by find_params or not), plus
    // type-directed values for whatever else the TIR reports (examples)
    let mut args = type_directed_args(t, &params, &known);
    for (k, v) in &known {
        args.entry(k.clone()).or_insert_with(|| v.clone());
    }
    let nparts = 1 + t.index(3);
    let mut arg_parts: Vec<ArgMap> = vec![ArgMap::new(); nparts];
    for (k, v) in &args {
        let i = t.index(nparts);
        arg_parts[i].insert(k.clone(), v.clone());
    }
    let queries = tx3_tir::reduce::find_queries(&tx0);
    let reads_datum = format!("{tx0:?}").contains("IntoDatum");
    let mut all_inputs: BTreeMap<String, HashSet<Utxo>> = BTreeMap::new();
    for (qi, (qname, _)) in queries.iter().enumerate() {
        let n = if reads_datum { 1 } else { 1 + t.index(3) };
        let mut set = HashSet::new();
        for j in 0..n {
            let mut v = Value::new();
            v.insert(None, *t.pick(&[5_000_000i128, 2_000_000, 100_000_000, 1]));
            if t.chance(1, 3) {
                v.insert(Some((vec![0x11; 28], b"TKA".to_vec())), 1 + t.draw(5) as i128);
            }
            // a UTxO need not carry a datum: what the template reads from it is then nothing
            let no_datum = t.chance(1, 3);
            let u = SimUtxo {
                address: addr_for(0, false, false),
                value: v,
                datum: if no_datum { None } else if t.chance(1, 4) { Some(tir::Expression::Number(t.draw(50) as i128)) } else { Some(tir::Expression::Struct(tir::StructExpr {
                    constructor: 0,
                    fields: vec![
                        tir::Expression::Number(if t.chance(1, 2) { *t.pick(&[7i128, 3]) } else { t.draw(50) as i128 }),
                        tir::Expression::Bytes(vec![0xAB, 0xCD]),
                        tir::Expression::List(vec![tir::Expression::Number(10), tir::Expression::Number(20), tir::Expression::Number(30)]),
                    ],
                })) },
                script: None,
            };
            set.insert(u.to_utxo(&(vec![0x40 + qi as u8; 32], j as u32)));
        }
        all_inputs.insert(qname.clone(), set);
    }
    // a caller may also hand in a UTxO set under the name of an input block (an argument map is
    // open-ended); it is not a declared parameter and must not compete with the inputs stage
    if !all_inputs.is_empty() && t.chance(1, 8) {
        let names: Vec<String> = all_inputs.keys().cloned().collect();
        let name = names[t.index(names.len())].clone();
        let mut v = Value::new();
        v.insert(None, 77_000_000);
        let other = SimUtxo {
            address: addr_for(1, false, false),
            value: v,
            datum: None,
            script: None,
        }
        .to_utxo(&(vec![0x7E; 32], 5));
        let mut set = HashSet::new();
        set.insert(other);
        let i = t.index(arg_parts.len());
        args.insert(name.clone(), ArgValue::UtxoSet(set.clone()));
        arg_parts[i].insert(name, ArgValue::UtxoSet(set));
        rep.fire("utxo-set-argument-named-like-an-input");
    }
    // inputs may also be applied in two steps (one block at a time)
    let split_inputs = all_inputs.len() > 1 && t.chance(1, 3);
    let input_parts: Vec<BTreeMap<String, HashSet<Utxo>>> = if split_inputs {
        all_inputs.iter().map(|(k, v)| BTreeMap::from([(k.clone(), v.clone())])).collect()
    } else {
        vec![all_inputs.clone()]
    };
    let fee = *t.pick(&[200_000u64, 0, 171_000, 4_294_967_296]);

    // ---- reference: all arguments, fees, inputs, then saturation
    let mut ref_trace = vec![];
    let reference: Result<Vec<u8>, StepErr> = (|| {
        let mut st = State { tx: tx0.clone() };
        apply_op(&mut st, &Op::Args(0), &[args.clone()], &[], fee, &pp)?;
        apply_op(&mut st, &Op::Fees, &[], &[], fee, &pp)?;
        apply_op(&mut st, &Op::Inputs(0), &[], &[all_inputs.clone()], fee, &pp)?;
        saturate(&mut st, &pp, &mut ref_trace, rep, "reference schedule")?;
        Ok(canon_bytes(&st.tx))
    })();
    if let Err(StepErr::Panic(p)) = &reference {
        rep.violate("C14", "P1-panic", p.site(), format!("stage application panicked: {}", p.message));
    }

    // ---- sampled schedules
    let nsched = 6;
    let mut sig = crate::tape::Digest::default();
    let mut shown = vec![];
    let mut distinct_schedules = std::collections::BTreeSet::new();
    for si in 0..nsched {
        let mut pending: Vec<Op> = (0..nparts).map(Op::Args).collect();
        pending.extend((0..input_parts.len()).map(Op::Inputs));
        pending.push(Op::Fees);
        t.shuffle(&mut pending);
        let mut st = State { tx: tx0.clone() };
        let mut trace: Vec<String> = vec![];
        let run: Result<Vec<u8>, StepErr> = (|| {
            while !pending.is_empty() {
                // optional interleaved reduce / compiler pass
                match t.weighted(&[3, 2, 1]) {
                    1 => {
                        apply_op(&mut st, &Op::Reduce, &arg_parts, &input_parts, fee, &pp)?;
                        trace.push("reduce".into());
                        check_idempotent(&st, &pp, rep, &format!("schedule {trace:?}"))?;
                    }
                    2 => {
                        let (any, ready) = compiler_ops_state(&to_value(&st.tx));
                        if any && ready {
                            apply_op(&mut st, &Op::Compiler, &arg_parts, &input_parts, fee, &pp)?;
                            trace.push("compiler-ops".into());
                        }
                    }
                    _ => {}
                }
                let op = pending.remove(0);
                apply_op(&mut st, &op, &arg_parts, &input_parts, fee, &pp)?;
                trace.push(match &op {
                    Op::Args(i) => format!("args{:?}", arg_parts[*i].keys().collect::<Vec<_>>()),
                    Op::Inputs(i) => format!("inputs{:?}", input_parts[*i].keys().collect::<Vec<_>>()),
                    Op::Fees => "fees".into(),
                    other => format!("{other:?}"),
                });
            }
            let label = format!("schedule {trace:?}");
            saturate(&mut st, &pp, &mut trace, rep, &label)?;
            Ok(canon_bytes(&st.tx))
        })();
        rep.evaluations += 1;
        distinct_schedules.insert(trace.join(" > "));
        sig.str(&trace.join(">"));
        match (&reference, &run) {
            (Ok(a), Ok(b)) => {
                if a != b {
                    rep.violate(
                        "C07",
                        "O1-order",
                        "final-state-differs",
                        format!(
                            "`{name}`/{txname}: schedule [{}] ends in a different fully reduced template than [args > fees > inputs > saturate]",
                            trace.join(" > ")
                        ),
                    );
                }
            }
            (Err(StepErr::Err(_)), Err(StepErr::Err(_))) => {}
            (Ok(_), Err(StepErr::Err(e))) => rep.violate(
                "C07",
                "O1-order",
                "fails-in-one-order-only",
                format!("`{name}`/{txname}: schedule [{}] fails with {e} while the reference order succeeds", trace.join(" > ")),
            ),
            (Err(StepErr::Err(e)), Ok(_)) => rep.violate(
                "C07",
                "O1-order",
                "fails-in-one-order-only",
                format!("`{name}`/{txname}: schedule [{}] succeeds while the reference order fails with {e}", trace.join(" > ")),
            ),
            (_, Err(StepErr::Panic(p))) => {
                rep.violate("C14", "P1-panic", p.site(), format!("stage application panicked: {}", p.message));
            }
            (Err(StepErr::Panic(_)), _) => {}
        }
        if si < 2 {
            shown.push(trace.join(" > "));
        }
    }
    rep.fire("order");
    if nparts > 1 {
        rep.fire("split-args");
    }
    if split_inputs {
        rep.fire("split-inputs");
    }
    let mut d = crate::tape::Digest::default();
    d.str(&source);
    d.str(&txname);
    for s in &distinct_schedules {
        d.str(s);
    }
    if let Ok(b) = &reference {
        d.bytes(b);
    }
    rep.digest = d.0;
    rep.sig = sig.0;
    rep.nontrivial = distinct_schedules.len() > 1;
    rep.events = distinct_schedules.len() as u64;
    rep.probes.insert("distinct-schedules".into(), distinct_schedules.len() as u64);
    if matches!(reference, Ok(_)) {
        rep.probe("reference-ok");
    } else {
        rep.probe("reference-err");
    }
    rep.sample = Some(json!({
        "engine": "stage-sim",
        "program": name,
        "tx": txname,
        "source": crate::tape::clip(&source, 2500),
        "arg_parts": arg_parts.iter().map(|m| m.keys().cloned().collect::<Vec<_>>()).collect::<Vec<_>>(),
        "input_blocks": all_inputs.iter().map(|(k, v)| (k.clone(), v.len())).collect::<BTreeMap<_, _>>(),
        "fee": fee,
        "reference": format!("args > fees > inputs > {}", ref_trace.join(" > ")),
        "reference_outcome": match &reference { Ok(_) => "Ok".to_string(), Err(StepErr::Err(e)) => format!("Err({})", e.chars().take(120).collect::<String>()), Err(StepErr::Panic(p)) => format!("Panic({})", p.message) },
        "schedules": shown,
    }));
}
