//! The choice tape: every decision of a world is a `draw(bound)`.
//!
//! In search mode the tape is filled lazily from SplitMix64 and recorded; in
//! replay mode the recorded tape is the only input (draws past the end return
//! 0, "the plainest choice").  Logging never draws.

#[derive(Clone, Debug)]
pub struct SplitMix64(pub u64);

impl SplitMix64 {
    pub fn next(&mut self) -> u64 {
        self.0 = self.0.wrapping_add(0x9E37_79B9_7F4A_7C15);
        let mut z = self.0;
        z = (z ^ (z >> 30)).wrapping_mul(0xBF58_476D_1CE4_E5B9);
        z = (z ^ (z >> 27)).wrapping_mul(0x94D0_49BB_1331_11EB);
        z ^ (z >> 31)
    }
}

pub fn mix(a: u64, b: u64) -> u64 {
    let mut s = SplitMix64(a ^ b.rotate_left(32) ^ 0xD1B5_4A32_D192_ED03);
    s.next();
    s.next() ^ b.wrapping_mul(0x2545_F491_4F6C_DD1D)
}

pub fn mix_str(a: u64, s: &str) -> u64 {
    let mut h = a ^ 0xcbf2_9ce4_8422_2325;
    for b in s.bytes() {
        h ^= b as u64;
        h = h.wrapping_mul(0x0000_0100_0000_01b3);
    }
    mix(h, a)
}

#[derive(Clone, Debug)]
pub struct Tape {
    pub data: Vec<u64>,
    pos: usize,
    rng: SplitMix64,
    replay: bool,
}

impl Tape {
    pub fn search(seed: u64) -> Self {
        Tape {
            data: Vec::new(),
            pos: 0,
            rng: SplitMix64(seed),
            replay: false,
        }
    }

    pub fn replay(data: Vec<u64>) -> Self {
        Tape {
            data,
            pos: 0,
            rng: SplitMix64(0),
            replay: true,
        }
    }

    pub fn position(&self) -> usize {
        self.pos
    }

    /// uniform-ish draw in [0, bound); bound 0 or 1 consumes nothing.
    pub fn draw(&mut self, bound: u64) -> u64 {
        if bound <= 1 {
            return 0;
        }
        let v = if self.replay {
            let v = self.data.get(self.pos).copied().unwrap_or(0);
            v % bound
        } else {
            let v = self.rng.next() % bound;
            self.data.push(v);
            v
        };
        self.pos += 1;
        v
    }

    pub fn range(&mut self, lo: u64, hi_incl: u64) -> u64 {
        lo + self.draw(hi_incl - lo + 1)
    }

    /// true with probability num/den; `false` is the plain choice (draw 0 => false).
    pub fn chance(&mut self, num: u64, den: u64) -> bool {
        let v = self.draw(den);
        v >= den - num
    }

    pub fn pick<'a, T>(&mut self, xs: &'a [T]) -> &'a T {
        let i = self.draw(xs.len() as u64) as usize;
        &xs[i]
    }

    pub fn index(&mut self, len: usize) -> usize {
        self.draw(len as u64) as usize
    }

    /// weighted choice, index into weights; index 0 is the plain choice.
    pub fn weighted(&mut self, weights: &[u64]) -> usize {
        let total: u64 = weights.iter().sum();
        let mut v = self.draw(total);
        for (i, w) in weights.iter().enumerate() {
            if v < *w {
                return i;
            }
            v -= w;
        }
        weights.len() - 1
    }

    pub fn bytes(&mut self, n: usize) -> Vec<u8> {
        (0..n).map(|_| self.draw(256) as u8).collect()
    }

    pub fn shuffle<T>(&mut self, xs: &mut [T]) {
        for i in (1..xs.len()).rev() {
            let j = self.draw(i as u64 + 1) as usize;
            // draw 0 must be the identity: swap i with i-j
            xs.swap(i, i - j);
        }
    }
}

/// FNV-1a digest used for event-log fingerprints.
#[derive(Clone, Debug)]
pub struct Digest(pub u64);

impl Default for Digest {
    fn default() -> Self {
        Digest(0xcbf2_9ce4_8422_2325)
    }
}

impl Digest {
    pub fn bytes(&mut self, b: &[u8]) {
        for x in b {
            self.0 ^= *x as u64;
            self.0 = self.0.wrapping_mul(0x0000_0100_0000_01b3);
        }
        // length separator
        self.0 ^= b.len() as u64;
        self.0 = self.0.wrapping_mul(0x0000_0100_0000_01b3);
    }
    pub fn u64(&mut self, v: u64) {
        self.bytes(&v.to_le_bytes());
    }
    pub fn str(&mut self, s: &str) {
        self.bytes(s.as_bytes());
    }
}

/// at most `n` bytes of `s`, cut at a character boundary, with an ellipsis when cut
pub fn clip(s: &str, n: usize) -> String {
    if s.len() <= n {
        return s.to_string();
    }
    let mut cut = n;
    while !s.is_char_boundary(cut) {
        cut -= 1;
    }
    format!("{}…", &s[..cut])
}
