//! Process-level simulation for the real `tx3c` binary: several processes run under the LD_PRELOAD
//! shim, which parks each of them at every file-system call that touches the scheduled directory
//! and asks the simulator what to do.  The simulator (this module, driven by the world's tape)
//! decides which parked process proceeds next and whether its call goes through, is cut short,
//! fails, or is where the process dies.  One process is released at a time and the next decision
//! is taken only when every live process is parked again (or has exited), so the interleaving of
//! their file-system effects is a pure function of the tape.

use std::io::{Read, Write};
use std::os::fd::{FromRawFd, RawFd};
use std::os::unix::process::CommandExt;
use std::process::{Child, Command, Stdio};

use crate::p_entropy::{shim_path, tx3c_path};

#[derive(Clone, Debug)]
pub struct ProcSpec {
    pub src_path: String,
    pub out_path: String,
    pub hseed: u64,
    pub extra: Vec<String>,
}

#[derive(Clone, Copy, Debug, PartialEq)]
pub enum Verdict {
    Go,
    CrashBefore,
    CrashAfter,
    Eintr,
    Short,
    Eio,
    Enospc,
}

impl Verdict {
    fn byte(self) -> u8 {
        match self {
            Verdict::Go => b'g',
            Verdict::CrashBefore => b'k',
            Verdict::CrashAfter => b'K',
            Verdict::Eintr => b'i',
            Verdict::Short => b's',
            Verdict::Eio => b'e',
            Verdict::Enospc => b'n',
        }
    }
    pub fn name(self) -> &'static str {
        match self {
            Verdict::Go => "go",
            Verdict::CrashBefore => "crash-before",
            Verdict::CrashAfter => "crash-after",
            Verdict::Eintr => "EINTR",
            Verdict::Short => "short-write",
            Verdict::Eio => "EIO",
            Verdict::Enospc => "ENOSPC",
        }
    }
}

struct Proc {
    child: Child,
    ann: std::fs::File,
    go: std::fs::File,
    pending: Option<String>,
    done: bool,
    buf: Vec<u8>,
}

#[derive(Debug, Default, Clone)]
pub struct ProcOutcome {
    /// exit code (None: killed by a signal)
    pub code: Option<i32>,
    pub ops: Vec<String>,
    pub crashed_by_sim: bool,
    pub io_faults: u32,
}

fn pipe2() -> Result<(RawFd, RawFd), String> {
    let mut fds = [0 as libc::c_int; 2];
    let r = unsafe { libc::pipe2(fds.as_mut_ptr(), libc::O_CLOEXEC) };
    if r != 0 {
        return Err("pipe2 failed".into());
    }
    Ok((fds[0], fds[1]))
}

fn spawn(spec: &ProcSpec, sched_dir: &str) -> Result<Proc, String> {
    let (ann_r, ann_w) = pipe2()?;
    let (go_r, go_w) = pipe2()?;
    let mut cmd = Command::new(tx3c_path());
    cmd.arg("build")
        .arg(&spec.src_path)
        .arg("--emit")
        .arg("tii")
        .arg("-o")
        .arg(&spec.out_path)
        .args(&spec.extra)
        .env("LD_PRELOAD", shim_path())
        .env("VERIF_HASH_SEED", spec.hseed.to_string())
        .env("VERIF_DIR_SEED", spec.hseed.to_string())
        .env("VERIF_SCHED_DIR", sched_dir)
        .env("VERIF_SCHED_OUT", ann_w.to_string())
        .env("VERIF_SCHED_IN", go_r.to_string())
        .stdin(Stdio::null())
        .stdout(Stdio::null())
        .stderr(Stdio::null());
    unsafe {
        cmd.pre_exec(move || {
            // the child keeps exactly its own two pipe ends
            libc::fcntl(ann_w, libc::F_SETFD, 0);
            libc::fcntl(go_r, libc::F_SETFD, 0);
            Ok(())
        });
    }
    let child = cmd.spawn().map_err(|e| format!("cannot run tx3c: {e}"));
    unsafe {
        libc::close(ann_w);
        libc::close(go_r);
    }
    let child = match child {
        Ok(c) => c,
        Err(e) => {
            unsafe {
                libc::close(ann_r);
                libc::close(go_w);
            }
            return Err(e);
        }
    };
    Ok(Proc {
        child,
        ann: unsafe { std::fs::File::from_raw_fd(ann_r) },
        go: unsafe { std::fs::File::from_raw_fd(go_w) },
        pending: None,
        done: false,
        buf: vec![],
    })
}

/// wait until the process announces its next call (Some(line)) or exits (None)
fn next_announcement(p: &mut Proc) -> Result<Option<String>, String> {
    use std::os::fd::AsRawFd;
    loop {
        if let Some(pos) = p.buf.iter().position(|b| *b == b'\n') {
            let line: Vec<u8> = p.buf.drain(..=pos).collect();
            return Ok(Some(String::from_utf8_lossy(&line[..line.len() - 1]).to_string()));
        }
        let mut pfd = libc::pollfd {
            fd: p.ann.as_raw_fd(),
            events: libc::POLLIN,
            revents: 0,
        };
        let r = unsafe { libc::poll(&mut pfd, 1, 60_000) };
        if r == 0 {
            return Err("a scheduled tx3c process neither announced a call nor exited within 60 s".into());
        }
        if r < 0 {
            continue;
        }
        let mut chunk = [0u8; 1024];
        match p.ann.read(&mut chunk) {
            Ok(0) => return Ok(None),
            Ok(n) => p.buf.extend_from_slice(&chunk[..n]),
            Err(e) if e.kind() == std::io::ErrorKind::Interrupted => continue,
            Err(e) => return Err(format!("reading a scheduled process's announcements: {e}")),
        }
    }
}

/// Run the processes to completion under the simulator's schedule.
/// `decide(pending)` receives the parked calls as (process index, "op detail n") and returns which
/// one proceeds and with what verdict.  Returns per-process outcomes and the global order of calls.
pub fn run_scheduled(
    specs: &[ProcSpec],
    sched_dir: &str,
    decide: &mut dyn FnMut(&[(usize, String)]) -> (usize, Verdict),
) -> Result<(Vec<ProcOutcome>, Vec<String>), String> {
    let mut procs: Vec<Proc> = vec![];
    for s in specs {
        match spawn(s, sched_dir) {
            Ok(p) => procs.push(p),
            Err(e) => {
                for mut p in procs {
                    let _ = p.child.kill();
                    let _ = p.child.wait();
                }
                return Err(e);
            }
        }
    }
    let mut outs: Vec<ProcOutcome> = vec![ProcOutcome::default(); specs.len()];
    let mut order: Vec<String> = vec![];
    let mut failure: Option<String> = None;
    let mut steps = 0u32;
    'outer: loop {
        // every live process must be parked (or gone) before the next decision
        for (i, p) in procs.iter_mut().enumerate() {
            if p.done || p.pending.is_some() {
                continue;
            }
            match next_announcement(p) {
                Ok(Some(line)) => p.pending = Some(line),
                Ok(None) => {
                    p.done = true;
                    let st = p.child.wait().map_err(|e| format!("wait: {e}"))?;
                    outs[i].code = st.code();
                }
                Err(e) => {
                    failure = Some(e);
                    break 'outer;
                }
            }
        }
        let pending: Vec<(usize, String)> = procs.iter().enumerate().filter_map(|(i, p)| p.pending.clone().map(|l| (i, l))).collect();
        if pending.is_empty() {
            break;
        }
        steps += 1;
        if steps > 5_000 {
            failure = Some("more than 5000 scheduled calls".into());
            break;
        }
        let (who, verdict) = decide(&pending);
        let who = if pending.iter().any(|(i, _)| *i == who) { who } else { pending[0].0 };
        let line = procs[who].pending.take().unwrap();
        order.push(format!("p{who} {line} [{}]", verdict.name()));
        outs[who].ops.push(format!("{line} [{}]", verdict.name()));
        match verdict {
            Verdict::CrashBefore | Verdict::CrashAfter => outs[who].crashed_by_sim = true,
            Verdict::Go => {}
            _ => outs[who].io_faults += 1,
        }
        if procs[who].go.write_all(&[verdict.byte()]).is_err() {
            // the process is gone: its exit is picked up in the next round
        }
    }
    for p in procs.iter_mut() {
        if !p.done {
            let _ = p.child.kill();
            let _ = p.child.wait();
        }
    }
    match failure {
        Some(e) => Err(e),
        None => Ok((outs, order)),
    }
}
