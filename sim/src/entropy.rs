//! Entropy seam (N5): std's `RandomState` takes its SipHash keys from the weak
//! libc symbol `getrandom`, which std documents as an interposition point.
//! Defining the symbol here makes every HashMap/HashSet iteration order inside a
//! world a pure function of the world's hash seed.  Keys are fetched once per
//! thread, so each world (and each arm of a two-arm comparison) runs on a fresh
//! thread that sets its seed first.

use std::cell::Cell;
use std::sync::atomic::{AtomicU64, Ordering};

use crate::tape::SplitMix64;

thread_local! {
    static HSEED: Cell<u64> = const { Cell::new(0) };
    static HCTR: Cell<u64> = const { Cell::new(0) };
}

pub static CALLS: AtomicU64 = AtomicU64::new(0);

pub fn set_thread_seed(seed: u64) {
    HSEED.with(|s| s.set(seed));
    HCTR.with(|c| c.set(0));
}

#[no_mangle]
pub unsafe extern "C" fn getrandom(buf: *mut libc::c_void, len: libc::size_t, _flags: libc::c_uint) -> libc::ssize_t {
    CALLS.fetch_add(1, Ordering::Relaxed);
    let seed = HSEED.with(|s| s.get());
    let ctr = HCTR.with(|c| {
        let v = c.get();
        c.set(v + 1);
        v
    });
    let mut g = SplitMix64(seed ^ 0x5851_F42D_4C95_7F2D ^ ctr.wrapping_mul(0xA24B_AED4_963E_E407));
    g.next();
    let out = std::slice::from_raw_parts_mut(buf as *mut u8, len);
    let mut i = 0;
    while i < len {
        let v = g.next().to_le_bytes();
        let n = (len - i).min(8);
        out[i..i + n].copy_from_slice(&v[..n]);
        i += n;
    }
    len as libc::ssize_t
}

/// Run `f` on a fresh thread whose hash entropy is `hseed`.  The closure may
/// borrow from the caller (scoped thread).  64 MiB of stack so that deep but
/// legal recursion in the code under test is not mistaken for a crash.
pub fn in_world<T: Send, F: FnOnce() -> T + Send>(hseed: u64, f: F) -> T {
    std::thread::scope(|s| {
        std::thread::Builder::new()
            .stack_size(64 << 20)
            .spawn_scoped(s, move || {
                set_thread_seed(hseed);
                crate::clock::enable_on_this_thread();
                f()
            })
            .expect("spawn world thread")
            .join()
            .expect("world thread panicked outside catch_unwind")
    })
}

fn order_probe() -> Vec<u32> {
    let s: std::collections::HashSet<u32> = (0..12u32).collect();
    s.into_iter().collect()
}

/// Self-check of the seam; Err => harness error (exit 2), never a violation.
pub fn self_check() -> Result<(), String> {
    let before = CALLS.load(Ordering::Relaxed);
    let a1 = in_world(101, order_probe);
    let a2 = in_world(101, order_probe);
    let b = in_world(202, order_probe);
    let c = in_world(303, order_probe);
    let after = CALLS.load(Ordering::Relaxed);
    if after == before {
        return Err("entropy seam: getrandom override was never called (toolchain no longer honours the weak symbol)".into());
    }
    if a1 != a2 {
        return Err("entropy seam: equal hash seeds gave different iteration orders".into());
    }
    if a1 == b && a1 == c {
        return Err("entropy seam: different hash seeds gave identical iteration orders".into());
    }
    Ok(())
}
