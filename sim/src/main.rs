mod byz;
mod chain;
mod clock;
mod compiler;
mod core;
mod entropy;
mod exec;
mod front;
mod gen;
mod gen_tir;
mod p_c20;
mod p_entropy;
mod p_resolver;
mod p_stage;
mod p_wire;
mod procsim;
mod reader;
mod props;
mod rsim;
mod supervise;
mod tape;
mod txread;
mod world;

use crate::core::Tier;

fn arg_val(args: &[String], name: &str) -> Option<String> {
    args.iter().position(|a| a == name).and_then(|i| args.get(i + 1).cloned())
}

fn tier_of(args: &[String]) -> Tier {
    let t = arg_val(args, "--tier").or_else(|| std::env::var("VERIF_TIER").ok()).unwrap_or_else(|| "quick".into());
    if t == "thorough" { Tier::Thorough } else { Tier::Quick }
}

fn main() {
    let args: Vec<String> = std::env::args().collect();
    exec::install_panic_hook();
    if let Err(e) = entropy::self_check() {
        eprintln!("HARNESS ERROR: {e}");
        std::process::exit(2);
    }
    if let Err(e) = clock::self_check() {
        eprintln!("HARNESS ERROR: {e}");
        std::process::exit(2);
    }
    if !matches!(args.get(1).map(|s| s.as_str()), Some("worker")) {
        exec::loud_panics_on_this_thread();
    }
    let code = match args.get(1).map(|s| s.as_str()) {
        Some("run") => {
            let prop = arg_val(&args, "--property").expect("--property");
            let tier = tier_of(&args);
            let info = props::prop_info(&prop);
            let worlds = arg_val(&args, "--worlds")
                .and_then(|s| s.parse().ok())
                .unwrap_or(if tier == Tier::Quick { info.quick } else { info.thorough });
            let workers = std::env::var("VERIF_WORKERS").ok().and_then(|s| s.parse().ok()).unwrap_or(16);
            supervise::run(&supervise::RunCfg { prop, tier, worlds, workers })
        }
        Some("worker") => {
            let prop = arg_val(&args, "--property").expect("--property");
            let seed = arg_val(&args, "--seed").and_then(|s| s.parse().ok()).expect("--seed");
            let from = arg_val(&args, "--from").and_then(|s| s.parse().ok()).expect("--from");
            let to = arg_val(&args, "--to").and_then(|s| s.parse().ok()).expect("--to");
            supervise::worker(&prop, tier_of(&args), seed, from, to, args.iter().any(|a| a == "--digests"));
            0
        }
        Some("replay") => supervise::replay(args.get(2).expect("replay <file>")),
        Some("selftest") => {
            let n = arg_val(&args, "--n").and_then(|s| s.parse().ok()).unwrap_or(200);
            let props: Vec<String> = arg_val(&args, "--properties")
                .map(|s| s.split(',').map(|x| x.to_string()).collect())
                .unwrap_or_else(|| vec!["C03".into()]);
            let refs: Vec<&str> = props.iter().map(|s| s.as_str()).collect();
            supervise::selftest(&refs, n)
        }
        Some("tir") => {
            // debug: print the lowered TIR of one tx of a source file
            let src = std::fs::read_to_string(args.get(2).expect("file")).expect("read");
            let l = front::lower_all(&src).expect("front end");
            for (k, v) in l {
                if args.get(3).map(|x| x == &k).unwrap_or(true) {
                    println!("== {k}\n{v:#?}");
                }
            }
            0
        }
        Some("stagetime") => {
            // debug: time apply_args / apply_fees / reduce on every tx of a source file
            let src = std::fs::read_to_string(args.get(2).expect("file")).expect("read");
            let l = front::lower_all(&src).expect("front end");
            for (k, tx) in l {
                let mut a = tx3_tir::reduce::ArgMap::new();
                for (n, ty) in tx3_tir::reduce::find_params(&tx) {
                    let v = match ty {
                        tx3_tir::model::core::Type::Int => tx3_tir::reduce::ArgValue::Int(2_000_000),
                        tx3_tir::model::core::Type::Address => tx3_tir::reduce::ArgValue::Address(gen::addr_for(0, false, false)),
                        _ => tx3_tir::reduce::ArgValue::Bytes(vec![1, 2, 3]),
                    };
                    a.insert(n, v);
                }
                let t0 = std::time::Instant::now();
                let x = tx3_tir::reduce::apply_args(tx, &a).expect("args");
                let t1 = std::time::Instant::now();
                let x = tx3_tir::reduce::apply_fees(x, 200_000).expect("fees");
                let t2 = std::time::Instant::now();
                let x = tx3_tir::reduce::reduce(x);
                let t3 = std::time::Instant::now();
                println!("{k}: apply_args {:?} apply_fees {:?} reduce {:?} ok={}", t1 - t0, t2 - t1, t3 - t2, x.is_ok());
            }
            0
        }
        Some("show") => {
            // show one world's expansion
            let prop = arg_val(&args, "--property").expect("--property");
            let n: u64 = arg_val(&args, "--world").and_then(|s| s.parse().ok()).unwrap_or(0);
            let seed = supervise::verif_seed();
            let rep = supervise::run_one(&prop, Tier::Quick, n, tape::Tape::search(supervise::world_seed(seed, &prop, n)));
            println!("{}", serde_json::to_string_pretty(&rep).unwrap());
            0
        }
        _ => {
            eprintln!("usage: simctl run|worker|replay|selftest|show ...");
            2
        }
    };
    std::process::exit(code);
}
