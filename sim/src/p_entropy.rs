//! entropy-sim: the same deterministic computation executed in several worlds
//! that differ only in hash seed (and, for tx3c, in process); outputs compared
//! byte for byte.  C18: parse -> analyze -> lower -> encode.

use std::collections::BTreeMap;
use std::process::{Command, Stdio};

use serde_json::json;

use crate::core::{Tier, WorldReport};
use crate::exec::guarded;
use crate::gen::*;
use crate::tape::Tape;

pub fn example_sources() -> Vec<(String, String)> {
    let mut out = vec![];
    let Ok(rd) = std::fs::read_dir("/repo/examples") else { return out };
    let mut names: Vec<_> = rd
        .filter_map(|e| e.ok())
        .map(|e| e.path())
        .filter(|p| p.extension().map(|x| x == "tx3").unwrap_or(false))
        .collect();
    names.sort();
    for p in names {
        if let Ok(s) = std::fs::read_to_string(&p) {
            out.push((p.file_name().unwrap().to_string_lossy().to_string(), s));
        }
    }
    out
}

fn encode_all(source: &str) -> Result<BTreeMap<String, Vec<u8>>, String> {
    let lowered = crate::front::lower_all(source)?;
    Ok(lowered
        .iter()
        .map(|(k, tx)| (k.clone(), tx3_tir::encoding::to_bytes(tx).0))
        .collect())
}

fn multi_field_directive(source: &str) -> bool {
    match crate::front::lower_all(source) {
        Ok(l) => l.values().any(|tx| tx.adhoc.iter().any(|a| a.data.len() > 1)),
        Err(_) => false,
    }
}

/// A program of the same shape: same length, same identifiers, same spans - only the content
/// of hex literals, decimal numbers and string literals differs.  Building it first on the same
/// thread is the history under which any state kept between builds (a cache keyed by names or
/// positions, an interner, a counter) shows up.
pub fn sibling(t: &mut Tape, source: &str) -> String {
    let b: Vec<char> = source.chars().collect();
    let mut out = String::with_capacity(source.len());
    let mut i = 0;
    let ident = |c: char| c.is_alphanumeric() || c == '_';
    while i < b.len() {
        let c = b[i];
        if c == '0' && i + 1 < b.len() && b[i + 1] == 'x' && (i == 0 || !ident(b[i - 1])) {
            out.push('0');
            out.push('x');
            i += 2;
            while i < b.len() && b[i].is_ascii_hexdigit() {
                if t.chance(1, 2) {
                    out.push(std::char::from_digit(t.draw(16) as u32, 16).unwrap());
                } else {
                    out.push(b[i]);
                }
                i += 1;
            }
        } else if c == '"' {
            out.push(c);
            i += 1;
            while i < b.len() && b[i] != '"' {
                if b[i].is_ascii_alphabetic() && t.chance(1, 3) {
                    out.push((b'a' + t.draw(26) as u8) as char);
                } else {
                    out.push(b[i]);
                }
                i += 1;
            }
        } else if c.is_ascii_digit() && (i == 0 || !ident(b[i - 1])) {
            // a decimal number: keep its length and a non-zero leading digit
            let mut first = true;
            while i < b.len() && b[i].is_ascii_digit() {
                if t.chance(1, 3) {
                    let lo = if first { 1 } else { 0 };
                    out.push(std::char::from_digit(lo + t.draw(10 - lo as u64) as u32, 10).unwrap());
                } else {
                    out.push(b[i]);
                }
                first = false;
                i += 1;
            }
        } else {
            out.push(c);
            i += 1;
        }
    }
    out
}

const TX3C_DEFAULT: &str = "/verif/sim/target-tx3c/release/tx3c";
const SHIM_DEFAULT: &str = "/verif/sim/target/getrandom_shim.so";

/// the tx3c binary and the shim built by `./check setup`; VERIF_TX3C / VERIF_SHIM point a scratch
/// regression lane (tools/regress_lane.sh) at its own builds
pub fn tx3c_path() -> String {
    std::env::var("VERIF_TX3C").unwrap_or_else(|_| TX3C_DEFAULT.to_string())
}
pub fn shim_path() -> String {
    std::env::var("VERIF_SHIM").unwrap_or_else(|_| SHIM_DEFAULT.to_string())
}

thread_local! {
    /// extra command-line arguments of this world's tx3c runs (profiles, env files)
    static TX3C_EXTRA: std::cell::RefCell<Vec<String>> = const { std::cell::RefCell::new(Vec::new()) };
}

fn run_tx3c(src_path: &str, out_path: &str, hseed: u64) -> Result<Vec<u8>, String> {
    run_tx3c_keep(src_path, out_path, hseed, false)
}

fn run_tx3c_keep(src_path: &str, out_path: &str, hseed: u64, keep: bool) -> Result<Vec<u8>, String> {
    let extra: Vec<String> = TX3C_EXTRA.with(|e| e.borrow().clone());
    let st = Command::new(tx3c_path())
        .arg("build")
        .arg(src_path)
        .arg("--emit")
        .arg("tii")
        .arg("-o")
        .arg(out_path)
        .args(&extra)
        .env("LD_PRELOAD", shim_path())
        .env("VERIF_HASH_SEED", hseed.to_string())
        // the order in which a directory hands out its entries is entropy of the environment too
        .env("VERIF_DIR_SEED", hseed.to_string())
        .stdout(Stdio::null())
        .stderr(Stdio::null())
        .status()
        .map_err(|e| format!("cannot run tx3c: {e}"))?;
    if !st.success() {
        return Err(format!("tx3c exited with {st}"));
    }
    let b = std::fs::read(out_path).map_err(|e| format!("no tii written: {e}"))?;
    if !keep {
        let _ = std::fs::remove_file(out_path);
    }
    Ok(b)
}

pub fn world_c18(tier: Tier, world_no: u64, mut t: Tape) -> WorldReport {
    let mut rep = WorldReport {
        world: world_no,
        ..Default::default()
    };
    let examples = example_sources();
    // programs with a rare top-level shape (`env` declared twice) always get the process-level runs:
    // what they can disturb (the TII's environment schema) is invisible in-process
    let mut force_process = false;
    // the first worlds are the example programs, one each; the rest are generated
    let (name, source, from_example) = if (world_no as usize) < examples.len() && t.draw(2) < 2 {
        let (n, s) = examples[world_no as usize].clone();
        (n, s, true)
    } else {
        let p = gen_program(
            &mut t,
            &GenCfg {
                profile: Profile::Rich,
                mainnet: false,
                max_txs: 3,
                force_min_utxo: None,
                rich_directives: true,
                optional_bias: false,
            datum_bias: false,
            },
        );
        force_process = p.env_twice;
        let mut src = p.source();
        // a transaction name declared twice, the second time with one more parameter (the grammar and
        // the analyzer take it; which declaration an artifact describes must not vary from build to build)
        if t.draw(10) == 9 {
            if let Some(at) = src.find("\ntx ") {
                let block_end = src[at + 1..].find("\ntx ").map(|e| at + 1 + e).unwrap_or(src.len());
                let block = src[at..block_end].to_string();
                if let Some(open) = block.find("(\n") {
                    let twin = format!("{}(\n    dupz: Int,\n{}", &block[..open], &block[open + 2..]);
                    src.push_str(&twin);
                    force_process = true;
                }
            }
        }
        // a metadata block that repeats one of its labels (legal for the front end; what the ledger makes
        // of it is not C18's matter - what the block lowers to must still be one byte string)
        if t.draw(6) == 5 {
            if let Some(at) = src.find("    metadata {\n") {
                let body_from = at + "    metadata {\n".len();
                if let Some(end_rel) = src[body_from..].find("    }\n") {
                    let body = src[body_from..body_from + end_rel].to_string();
                    let labels: Vec<&str> = body.lines().filter_map(|l| l.trim().split(':').next()).filter(|k| !k.is_empty()).collect();
                    if let Some(first) = labels.first() {
                        let extra = if labels.len() >= 2 {
                            format!("        {}: \"again\",\n", first)
                        } else {
                            format!("        9{}: \"other\",\n        {}: \"again\",\n", first, first)
                        };
                        src.insert_str(body_from + end_rel, &extra);
                    }
                }
            }
        }
        (format!("generated-{world_no}"), src, false)
    };
    let nseeds = 8usize;
    let seeds: Vec<u64> = (0..nseeds).map(|_| 1 + t.draw(1 << 40)).collect();
    let do_process = from_example || t.chance(1, if tier == Tier::Quick { 24 } else { 24 }) || force_process;
    let multi = multi_field_directive(&source);
    let shape = if multi { "multi-field-directive" } else { "no-multi-field-directive" };

    // ---- L1: in-process, H worlds with distinct hash seeds + 20 repetitions inside the first
    let mut outs: Vec<Result<BTreeMap<String, Vec<u8>>, String>> = vec![];
    let mut d = crate::tape::Digest::default();
    for (i, s) in seeds.iter().enumerate() {
        let src = source.clone();
        let r = crate::entropy::in_world(*s, move || {
            guarded(|| {
                let first = encode_all(&src);
                if i == 0 {
                    // histories of repeated builds on one thread: successive RandomStates
                    for _ in 0..20 {
                        let again = encode_all(&src);
                        if again != first {
                            return Err("REPEAT".to_string());
                        }
                    }
                }
                first
            })
        });
        match r {
            Ok(x) => outs.push(x),
            Err(p) => {
                if from_example {
                    // example programs that the front end cannot take are not C18's business
                    rep.nontrivial = false;
                    rep.sample = Some(json!({"program": name, "skipped": format!("front end panicked: {}", p.message)}));
                    return rep;
                }
                rep.harness_error = Some(format!("front end panicked on generated program: {p:?}\n{source}"));
                return rep;
            }
        }
    }
    rep.evaluations = nseeds as u64 + 20;
    match &outs[0] {
        Err(e) if e == "REPEAT" => {
            rep.violate(
                "C18",
                "L1-tir",
                format!("{shape}/same-thread"),
                format!("`{name}`: 20 repetitions on one thread (seed {}) did not all give the same TIR bytes", seeds[0]),
            );
        }
        Err(e) => {
            if from_example {
                rep.sample = Some(json!({"program": name, "skipped": e}));
                return rep;
            }
            rep.harness_error = Some(format!("front end rejected generated program: {e}\n{source}"));
            return rep;
        }
        Ok(first) => {
            for (k, v) in first {
                d.str(k);
                d.bytes(v);
            }
            for (i, o) in outs.iter().enumerate().skip(1) {
                if o.as_ref() != Ok(first) {
                    let which = match o {
                        Ok(m) => m
                            .iter()
                            .find(|(k, v)| first.get(*k) != Some(*v))
                            .map(|(k, _)| k.clone())
                            .unwrap_or_default(),
                        Err(e) => format!("error {e}"),
                    };
                    rep.violate(
                        "C18",
                        "L1-tir",
                        shape,
                        format!(
                            "`{name}`: tx `{which}` encodes to different TIR bytes under hash seeds {} and {}",
                            seeds[0], seeds[i]
                        ),
                    );
                    break;
                }
            }
        }
    }
    // ---- L3: histories of *other* builds on the same thread.  One to three programs of the same
    // shape (and, half of the time, an unrelated example) are built first; the program itself must
    // then encode exactly as on a fresh thread.
    if let Some(Ok(first)) = outs.first() {
        let nsib = 1 + t.index(3);
        let mut history: Vec<String> = (0..nsib).map(|_| sibling(&mut t, &source)).collect();
        if !examples.is_empty() && t.chance(1, 2) {
            let k = t.index(examples.len());
            history.push(examples[k].1.clone());
        }
        let hseed = seeds[1 % seeds.len()];
        let src = source.clone();
        let hist = history.clone();
        let after = crate::entropy::in_world(hseed, move || {
            guarded(|| {
                let mut accepted = 0u32;
                for h in &hist {
                    // a sibling the front end rejects (or even panics on) is a history all the same
                    if let Ok(Ok(_)) = guarded(|| encode_all(h)) {
                        accepted += 1;
                    }
                }
                (encode_all(&src), accepted)
            })
        });
        rep.evaluations += 1;
        rep.fire("build-history");
        match after {
            Ok((Ok(again), accepted)) => {
                if accepted > 0 {
                    rep.probe("history-of-accepted-siblings");
                }
                if &again != first {
                    let which = again.iter().find(|(k, v)| first.get(*k) != Some(*v)).map(|(k, _)| k.clone()).unwrap_or_default();
                    rep.violate(
                        "C18",
                        "L3-history",
                        "after-same-shape-programs",
                        format!(
                            "`{name}`: tx `{which}` encodes to different TIR bytes when {} other program(s) of the same shape were built first on the same thread than on a fresh thread",
                            history.len()
                        ),
                    );
                }
            }
            Ok((Err(e), _)) => rep.violate(
                "C18",
                "L3-history",
                "after-same-shape-programs/fails",
                format!("`{name}`: the front end accepts the program on a fresh thread but rejects it after other programs were built on the same thread: {e}"),
            ),
            Err(p) => rep.violate(
                "C18",
                "L3-history",
                "after-same-shape-programs/panics",
                format!("`{name}`: building the program after other programs on the same thread panicked: {}", p.message),
            ),
        }
    }
    let distinct_l1: std::collections::BTreeSet<Vec<u8>> = outs
        .iter()
        .filter_map(|o| o.as_ref().ok())
        .map(|m| m.values().flat_map(|v| v.iter().cloned()).collect())
        .collect();
    rep.fire("hseed");
    if multi {
        rep.probe("program-with-multi-field-directive");
    }

    // ---- L2: the shipped binary, fresh processes under the entropy shim
    let mut l2 = vec![];
    if do_process {
        if !std::path::Path::new(&tx3c_path()).exists() || !std::path::Path::new(&shim_path()).exists() {
            rep.harness_error = Some("tx3c binary or entropy shim not built (run ./check setup)".into());
            return rep;
        }
        let dir = std::env::temp_dir().join(format!("tx3-c18-{}-{}", std::process::id(), world_no));
        let _ = std::fs::create_dir_all(&dir);
        let src_path = dir.join("prog.tx3");
        let _ = std::fs::write(&src_path, &source);
        // neighbours of the source a build tool might pick up by convention: dotenv files per profile,
        // in two spellings with different content (which one a directory scan meets first is not a
        // property of the input)
        for (fname, tag) in [(".env.dev", "plain"), (".env.dev.local", "local"), (".env.staging", "plain"), (".env.local", "local"), (".env", "root"), ("prog.env", "byname")] {
            let mut lines: Vec<String> = vec![];
            for word in source.split_whitespace().collect::<Vec<_>>().windows(2) {
                if word[0] == "party" {
                    let n = word[1].trim_end_matches(';');
                    lines.push(format!("{}=addr_test1{}{}", n.to_uppercase(), tag, n.len()));
                }
            }
            for (k, e) in ["ev0", "ev1", "field_a", "mint_policy"].iter().enumerate() {
                lines.push(format!("{}={}{}", e.to_uppercase(), tag.len(), k));
            }
            let _ = std::fs::write(dir.join(fname), lines.join("\n") + "\n");
        }
        // half of the process-level worlds build with profiles: a forced profile and one fed from a
        // dotenv file whose keys come in several letter cases (OWNER= / owner=), as env files
        // written by hand do
        let mut extra: Vec<String> = vec![];
        if t.chance(1, 2) {
            let mut lines: Vec<String> = vec![];
            for word in source.split_whitespace().collect::<Vec<_>>().windows(2) {
                if word[0] == "party" {
                    let n = word[1].trim_end_matches(';');
                    lines.push(format!("{}=addr_test1upper{}", n.to_uppercase(), n.len()));
                    lines.push(format!("{}=addr_test1lower{}", n.to_lowercase(), n.len()));
                    lines.push(format!("{}=addr_test1asis{}", n, n.len()));
                }
            }
            for (k, e) in ["ev0", "ev1", "field_a", "mint_policy"].iter().enumerate() {
                lines.push(format!("{}={}", e.to_uppercase(), 10 + k));
                lines.push(format!("{}={}", e, 20 + k));
            }
            // file order is part of the input, not of the entropy: shuffled by the tape
            t.shuffle(&mut lines);
            let env_path = dir.join("dev.env");
            let _ = std::fs::write(&env_path, lines.join("\n") + "\n");
            extra.push("--profile-env-file".into());
            extra.push(format!("dev:{}", env_path.to_str().unwrap()));
            extra.push("--profile".into());
            extra.push("staging".into());
            if t.chance(1, 2) {
                // profile names that differ only in letter case, each with its own content
                let other: Vec<String> = lines.iter().map(|l| l.replace("=addr_test1", "=addr_test1other").replace('=', "=9")).collect();
                let env2 = dir.join("dev2.env");
                let _ = std::fs::write(&env2, other.join("\n") + "\n");
                extra.push("--profile-env-file".into());
                extra.push(format!("Dev:{}", env2.to_str().unwrap()));
                extra.push("--profile".into());
                extra.push("Staging".into());
                extra.push("--profile".into());
                extra.push(" staging".into());
            }
            rep.fire("profiles-and-env-file");
        }
        TX3C_EXTRA.with(|e| *e.borrow_mut() = extra.clone());
        let nproc = if tier == Tier::Quick { 3 } else { 3 };
        for i in 0..nproc {
            let out = dir.join(format!("out{i}.tii"));
            l2.push(run_tx3c(src_path.to_str().unwrap(), out.to_str().unwrap(), seeds[i]));
            rep.fire("process-hseed");
        }
        // ---- L4: build history on one output path.  Another (usually larger) program is built to
        // the path first, then the program itself: the artifact must be the one a fresh path gets.
        if let Some(Ok(first)) = l2.first() {
            let mut by_len: Vec<&(String, String)> = examples.iter().collect();
            by_len.sort_by_key(|(_, s)| std::cmp::Reverse(s.len()));
            let hist_src = if t.chance(1, 2) && !by_len.is_empty() {
                by_len[t.index(by_len.len().min(6))].1.clone()
            } else {
                // the program followed by every transaction once more under another name
                let mut h = source.clone();
                if let Some(at) = source.find("\ntx ") {
                    h.push_str(&source[at..].replace("\ntx ", "\ntx again_"));
                }
                h
            };
            let hist_path = dir.join("hist.tx3");
            let _ = std::fs::write(&hist_path, &hist_src);
            let out = dir.join("same.tii");
            let h = run_tx3c_keep(hist_path.to_str().unwrap(), out.to_str().unwrap(), seeds[0], true);
            if let Ok(hbytes) = h {
                rep.fire("output-path-history");
                if hbytes.len() > first.len() {
                    rep.probe("history-artifact-larger");
                }
                match run_tx3c_keep(src_path.to_str().unwrap(), out.to_str().unwrap(), seeds[0], true) {
                    Ok(again) => {
                        if &again != first {
                            rep.violate(
                                "C18",
                                "L4-path-history",
                                if hbytes.len() > first.len() { "over-a-larger-artifact" } else { "over-a-smaller-artifact" },
                                format!(
                                    "`{name}`: `tx3c build --emit tii` onto a path that already held another artifact ({} bytes) wrote {} bytes that differ from the {} bytes written to a fresh path under the same hash seed",
                                    hbytes.len(),
                                    again.len(),
                                    first.len()
                                ),
                            );
                        }
                    }
                    Err(e) => rep.violate("C18", "L4-path-history", "fails-over-existing-artifact", format!("`{name}`: tx3c fails when the output path already holds an artifact: {e}")),
                }
                rep.evaluations += 1;
            }
        }
        // ---- L4 (continued): the path already holds an *equivalent* artifact in another serialisation
        // (minified by a formatter, CRLF from another platform, a trailing newline from an editor)
        if let Some(Ok(first)) = l2.first() {
            let variant: Option<(Vec<u8>, &str)> = match t.draw(3) {
                0 => serde_json::from_slice::<serde_json::Value>(first).ok().map(|v| (v.to_string().into_bytes(), "minified")),
                1 => {
                    let mut b = first.clone();
                    b.push(b'\n');
                    Some((b, "trailing-newline"))
                }
                _ => Some((String::from_utf8_lossy(first).replace('\n', "\r\n").into_bytes(), "crlf")),
            };
            if let Some((bytes, how)) = variant {
                if &bytes != first {
                    let out = dir.join("equiv.tii");
                    let _ = std::fs::write(&out, &bytes);
                    rep.fire("output-path-holds-equivalent-artifact");
                    match run_tx3c_keep(src_path.to_str().unwrap(), out.to_str().unwrap(), seeds[0], true) {
                        Ok(again) => {
                            if &again != first {
                                rep.violate(
                                    "C18",
                                    "L4-path-history",
                                    format!("over-an-equivalent-artifact/{how}"),
                                    format!(
                                        "`{name}`: the output path held the same artifact re-serialised ({how}, {} bytes); after `tx3c build --emit tii` it holds {} bytes that differ from the {} bytes a fresh path gets",
                                        bytes.len(),
                                        again.len(),
                                        first.len()
                                    ),
                                );
                            }
                        }
                        Err(e) => rep.violate("C18", "L4-path-history", "fails-over-existing-artifact", format!("`{name}`: tx3c fails when the output path already holds an artifact: {e}")),
                    }
                    rep.evaluations += 1;
                }
            }
        }
        // ---- L5: builds that meet other builds, crashes and I/O faults on the output directory.
        // The processes run under the file-system seam of the shim: the tape decides how their calls
        // interleave, where one dies, which call is cut short or fails.
        if let Some(Ok(first)) = l2.first() {
            use crate::procsim::{run_scheduled, ProcSpec, Verdict};
            let sdir = dir.join("sched");
            let _ = std::fs::create_dir_all(sdir.join("x"));
            let _ = std::fs::create_dir_all(sdir.join("y"));
            let sdir_s = sdir.to_str().unwrap().to_string();
            // (a) two builds side by side, writing sibling paths of one directory
            let other_src = if !examples.is_empty() && t.chance(1, 2) { examples[t.index(examples.len())].1.clone() } else { sibling(&mut t, &source) };
            let other_path = dir.join("other.tx3");
            let _ = std::fs::write(&other_path, &other_src);
            let ref_b = run_tx3c(other_path.to_str().unwrap(), dir.join("refb.tii").to_str().unwrap(), seeds[1]);
            if let Ok(ref_b) = ref_b {
                let (na, nb) = *t.pick(&[
                    ("protocol.preview", "protocol.mainnet"),
                    ("a.tii", "b.tii"),
                    ("proto-1.0.1", "proto-1.0.2"),
                    ("x/out.tii", "y/out.tii"),
                    ("out.tii", "out.tii.new"),
                    ("build", "build.tii"),
                ]);
                let specs = vec![
                    ProcSpec { src_path: src_path.to_str().unwrap().into(), out_path: sdir.join(na).to_str().unwrap().into(), hseed: seeds[0], extra: extra.clone() },
                    ProcSpec { src_path: other_path.to_str().unwrap().into(), out_path: sdir.join(nb).to_str().unwrap().into(), hseed: seeds[1], extra: extra.clone() },
                ];
                let mut decide = |pending: &[(usize, String)]| (pending[t.index(pending.len())].0, Verdict::Go);
                match run_scheduled(&specs, &sdir_s, &mut decide) {
                    Err(e) => {
                        rep.harness_error = Some(format!("process-level schedule: {e}"));
                        return rep;
                    }
                    Ok((outs, order)) => {
                        // the interleaving is part of the world's fingerprint (paths without the scratch prefix)
                        for l in &order {
                            d.str(&l.replace(dir.to_str().unwrap_or(""), ""));
                        }
                        rep.fire("two-builds-interleaved");
                        rep.evaluations += 2;
                        if outs.iter().all(|o| o.ops.len() >= 2) {
                            rep.probe("both-builds-made-scheduled-calls");
                        }
                        for (i, (name_i, want)) in [(na, first), (nb, &ref_b)].iter().enumerate() {
                            if outs[i].code != Some(0) {
                                rep.violate("C18", "L5-concurrent", "build-fails-next-to-another-build", format!("`{name}`: `tx3c build` exited with {:?} while another build wrote `{}` in the same directory; schedule: {}", outs[i].code, if i == 0 { nb } else { na }, order.join(" | ")));
                                continue;
                            }
                            let got = std::fs::read(sdir.join(name_i)).unwrap_or_default();
                            if &got != *want {
                                rep.violate(
                                    "C18",
                                    "L5-concurrent",
                                    "artifact-differs-next-to-another-build",
                                    format!(
                                        "`{name}`: two builds side by side (`-o {na}` and `-o {nb}` in one directory): `{name_i}` holds {} bytes that differ from the {} bytes the same build writes alone; schedule: {}",
                                        got.len(),
                                        want.len(),
                                        crate::tape::clip(&order.join(" | "), 900)
                                    ),
                                );
                            }
                        }
                    }
                }
            }
            // (a') the same build twice at the same time onto the *same* path (a watcher firing twice, two
            // CI jobs sharing a workspace): both write the same bytes, so whatever the interleaving - and
            // with interrupted or short writes on the way - the path ends up holding them
            {
                let out = sdir.join("twice.tii");
                let spec = ProcSpec { src_path: src_path.to_str().unwrap().into(), out_path: out.to_str().unwrap().into(), hseed: seeds[0], extra: extra.clone() };
                let specs = vec![spec.clone(), spec];
                let mut hard = false;
                let mut decide = |pending: &[(usize, String)]| {
                    let k = t.index(pending.len());
                    let is_write = pending[k].1.starts_with("write ");
                    let v = match t.draw(10) {
                        8 => Verdict::Eintr,
                        9 if is_write => Verdict::Short,
                        _ => Verdict::Go,
                    };
                    if v != Verdict::Go {
                        hard = true;
                    }
                    (pending[k].0, v)
                };
                match run_scheduled(&specs, &sdir_s, &mut decide) {
                    Err(e) => {
                        rep.harness_error = Some(format!("process-level schedule: {e}"));
                        return rep;
                    }
                    Ok((outs, order)) => {
                        for l in &order {
                            d.str(&l.replace(dir.to_str().unwrap_or(""), ""));
                        }
                        rep.fire("same-build-twice-onto-one-path");
                        rep.evaluations += 1;
                        if outs.iter().all(|o| o.code == Some(0)) {
                            let got = std::fs::read(&out).unwrap_or_default();
                            if &got != first {
                                rep.violate(
                                    "C18",
                                    "L5-concurrent",
                                    if hard { "same-build-twice-onto-one-path/with-interrupted-writes" } else { "same-build-twice-onto-one-path" },
                                    format!("`{name}`: the same build ran twice at the same time onto one path; both exited 0 but the path holds {} bytes that differ from the {} bytes either writes alone; schedule: {}", got.len(), first.len(), crate::tape::clip(&order.join(" | "), 900)),
                                );
                            }
                        }
                    }
                }
            }
            // (b) a build that dies at a tape-chosen call, then a rebuild onto the same path
            {
                let out = sdir.join(*t.pick(&["crash.tii", "protocol.preview", "x/out.tii"]));
                let at = t.index(7);
                let after = t.chance(1, 2);
                let mut n = 0usize;
                let mut decide = |pending: &[(usize, String)]| {
                    let v = if n == at { if after { Verdict::CrashAfter } else { Verdict::CrashBefore } } else { Verdict::Go };
                    n += 1;
                    (pending[0].0, v)
                };
                let specs = vec![ProcSpec { src_path: src_path.to_str().unwrap().into(), out_path: out.to_str().unwrap().into(), hseed: seeds[0], extra: extra.clone() }];
                match run_scheduled(&specs, &sdir_s, &mut decide) {
                    Err(e) => {
                        rep.harness_error = Some(format!("process-level schedule: {e}"));
                        return rep;
                    }
                    Ok((outs, order)) => {
                        for l in &order {
                            d.str(&l.replace(dir.to_str().unwrap_or(""), ""));
                        }
                        if outs[0].crashed_by_sim {
                            rep.fire("build-crashed");
                            let left = std::fs::read(&out).map(|b| b.len() as i64).unwrap_or(-1);
                            match run_tx3c_keep(src_path.to_str().unwrap(), out.to_str().unwrap(), seeds[0], true) {
                                Ok(again) => {
                                    if &again != first {
                                        rep.violate(
                                            "C18",
                                            "L5-crash",
                                            "rebuild-after-a-crashed-build",
                                            format!("`{name}`: a build died at call {at} ({}), leaving {left} bytes at the output path; the rebuild wrote {} bytes that differ from the {} bytes a fresh path gets", order.last().cloned().unwrap_or_default(), again.len(), first.len()),
                                        );
                                    }
                                }
                                Err(e) => rep.violate("C18", "L5-crash", "rebuild-fails-after-a-crashed-build", format!("`{name}`: a build died at call {at} ({}); the rebuild fails: {e}", order.last().cloned().unwrap_or_default())),
                            }
                            rep.evaluations += 1;
                        }
                    }
                }
            }
            // (c) interrupted and short writes, I/O errors: a build that reports success wrote the artifact
            {
                let out = sdir.join("faulty.tii");
                let mut fired: Vec<&'static str> = vec![];
                let mut decide = |pending: &[(usize, String)]| {
                    let is_write = pending[0].1.starts_with("write ");
                    let v = match t.draw(8) {
                        5 => Verdict::Eintr,
                        6 if is_write => Verdict::Short,
                        7 => {
                            if t.chance(1, 2) {
                                Verdict::Eio
                            } else {
                                Verdict::Enospc
                            }
                        }
                        _ => Verdict::Go,
                    };
                    if v != Verdict::Go {
                        fired.push(v.name());
                    }
                    (pending[0].0, v)
                };
                let specs = vec![ProcSpec { src_path: src_path.to_str().unwrap().into(), out_path: out.to_str().unwrap().into(), hseed: seeds[0], extra: extra.clone() }];
                match run_scheduled(&specs, &sdir_s, &mut decide) {
                    Err(e) => {
                        rep.harness_error = Some(format!("process-level schedule: {e}"));
                        return rep;
                    }
                    Ok((outs, order)) => {
                        for l in &order {
                            d.str(&l.replace(dir.to_str().unwrap_or(""), ""));
                        }
                        d.u64(outs[0].code.unwrap_or(-1) as u64);
                        for f in &fired {
                            rep.fire(match *f {
                                "EINTR" => "io-eintr",
                                "short-write" => "io-short-write",
                                "EIO" => "io-eio",
                                _ => "io-enospc",
                            });
                        }
                        rep.evaluations += 1;
                        if outs[0].code == Some(0) {
                            let got = std::fs::read(&out).unwrap_or_default();
                            if &got != first {
                                rep.violate(
                                    "C18",
                                    "L5-iofault",
                                    "success-reported-but-artifact-differs",
                                    format!("`{name}`: `tx3c build` exited 0 under [{}] but the artifact holds {} bytes that differ from the {} bytes of an undisturbed build; calls: {}", fired.join(", "), got.len(), first.len(), crate::tape::clip(&order.join(" | "), 700)),
                                );
                            }
                        } else if !fired.is_empty() {
                            rep.probe("build-failed-under-io-fault");
                        }
                    }
                }
            }
        }
        TX3C_EXTRA.with(|e| e.borrow_mut().clear());
        let _ = std::fs::remove_dir_all(&dir);
        rep.evaluations += nproc as u64;
        match &l2[0] {
            Err(e) => {
                if !from_example {
                    rep.harness_error = Some(format!("tx3c failed on a generated program the library accepts: {e}\n{source}"));
                    return rep;
                }
            }
            Ok(first) => {
                d.bytes(first);
                for (i, o) in l2.iter().enumerate().skip(1) {
                    if o.as_ref() != Ok(first) {
                        rep.violate(
                            "C18",
                            "L2-tii",
                            shape,
                            format!(
                                "`{name}`: `tx3c build --emit tii` wrote different files in processes with hash seeds {} and {}",
                                seeds[0], seeds[i]
                            ),
                        );
                        break;
                    }
                }
            }
        }
    }
    rep.digest = d.0;
    rep.sig = d.0 ^ (multi as u64);
    rep.nontrivial = true;
    rep.events = (nseeds + l2.len()) as u64;
    rep.sample = Some(json!({
        "engine": "entropy-sim",
        "program": name,
        "source": crate::tape::clip(&source, 3000),
        "hash_seeds": seeds,
        "in_process_worlds": nseeds,
        "same_thread_repetitions": 20,
        "distinct_tir_encodings_seen": distinct_l1.len(),
        "tx3c_processes": l2.len(),
        "has_multi_field_directive": multi,
    }));
    rep.tape = t.data.clone();
    rep
}
