//! Executor: polls one task with a no-op waker, advancing simulated time
//! between polls.  Every poll is wrapped in catch_unwind; the panic hook stores
//! message and location in a thread-local without printing.

use std::cell::RefCell;
use std::future::Future;
use std::panic::{catch_unwind, AssertUnwindSafe};
use std::pin::Pin;
use std::task::{Context, Poll, RawWaker, RawWakerVTable, Waker};

use crate::world::{AdvanceResult, W};

#[derive(Clone, Debug, PartialEq, Eq)]
pub struct PanicInfo {
    pub message: String,
    pub file: String,
    pub line: u32,
}

impl PanicInfo {
    /// key that survives line shifts: file + trimmed text of the panicking line
    pub fn site(&self) -> String {
        let short = self
            .file
            .rsplit_once("/crates/")
            .map(|x| x.1.to_string())
            .unwrap_or_else(|| {
                // registry crates: keep crate dir + path
                let parts: Vec<&str> = self.file.split('/').collect();
                let n = parts.len();
                parts[n.saturating_sub(3)..].join("/")
            });
        let text = std::fs::read_to_string(&self.file)
            .ok()
            .and_then(|s| s.lines().nth(self.line.saturating_sub(1) as usize).map(|l| l.trim().to_string()))
            .unwrap_or_else(|| format!("line {}", self.line));
        format!("{} :: {}", short, text)
    }
}

thread_local! {
    static LAST_PANIC: RefCell<Option<PanicInfo>> = const { RefCell::new(None) };
    /// set on harness threads (supervisor): panics there are harness bugs and must be seen
    static LOUD: std::cell::Cell<bool> = const { std::cell::Cell::new(false) };
}

pub fn loud_panics_on_this_thread() {
    LOUD.with(|l| l.set(true));
}

pub fn install_panic_hook() {
    std::panic::set_hook(Box::new(|info| {
        let message = if let Some(s) = info.payload().downcast_ref::<&str>() {
            s.to_string()
        } else if let Some(s) = info.payload().downcast_ref::<String>() {
            s.clone()
        } else {
            "<non-string panic>".to_string()
        };
        let (file, line) = info
            .location()
            .map(|l| (l.file().to_string(), l.line()))
            .unwrap_or(("?".into(), 0));
        if LOUD.with(|l| l.get()) {
            eprintln!("HARNESS ERROR: harness panic at {file}:{line}: {message}");
        }
        LAST_PANIC.with(|p| {
            *p.borrow_mut() = Some(PanicInfo {
                message,
                file,
                line,
            })
        });
    }));
}

pub fn take_panic() -> PanicInfo {
    LAST_PANIC
        .with(|p| p.borrow_mut().take())
        .unwrap_or(PanicInfo {
            message: "<unknown>".into(),
            file: "?".into(),
            line: 0,
        })
}

/// run a synchronous closure under the crash oracle
pub fn guarded<T>(f: impl FnOnce() -> T) -> Result<T, PanicInfo> {
    catch_unwind(AssertUnwindSafe(f)).map_err(|_| take_panic())
}

fn noop_waker() -> Waker {
    fn clone(_: *const ()) -> RawWaker {
        RawWaker::new(std::ptr::null(), &VTABLE)
    }
    fn noop(_: *const ()) {}
    static VTABLE: RawWakerVTable = RawWakerVTable::new(clone, noop, noop, noop);
    unsafe { Waker::from_raw(RawWaker::new(std::ptr::null(), &VTABLE)) }
}

#[derive(Debug)]
pub enum RunEnd<T> {
    Done(T),
    /// future dropped by the client after this many polls
    Cancelled(u32),
    Panicked(PanicInfo),
    /// poll budget exhausted or nothing left that could ever wake the task
    Hung(String),
}

pub struct DriveStats {
    pub polls: u32,
}

/// Drive `fut` to completion on world `w`.
/// `cancel_after`: drop the future right after poll #k returned Pending.
pub fn drive<F: Future>(
    w: &W,
    fut: F,
    cancel_after: Option<u32>,
    poll_cap: u32,
) -> (RunEnd<F::Output>, DriveStats) {
    let waker = noop_waker();
    let mut cx = Context::from_waker(&waker);
    let mut fut: Pin<Box<F>> = Box::pin(fut);
    let mut polls = 0u32;
    loop {
        polls += 1;
        {
            // the clock the code under test would read shows the world's time
            let g = w.lock().unwrap();
            crate::clock::set_now_ns(g.clock_base_ns.saturating_add(g.now.saturating_mul(g.cfg.tick_len_ns())));
            crate::clock::set_realtime_step(match g.realtime_step {
                Some((at, delta)) if g.now >= at => delta,
                _ => 0,
            });
        }
        let r = catch_unwind(AssertUnwindSafe(|| fut.as_mut().poll(&mut cx)));
        match r {
            Err(_) => {
                let p = take_panic();
                // the future may be in an inconsistent state: leak it rather than run Drop glue twice
                std::mem::forget(fut);
                return (RunEnd::Panicked(p), DriveStats { polls });
            }
            Ok(Poll::Ready(v)) => return (RunEnd::Done(v), DriveStats { polls }),
            Ok(Poll::Pending) => {
                if cancel_after == Some(polls) {
                    drop(fut);
                    let mut g = w.lock().unwrap();
                    g.fire("cancel");
                    g.note(format!("client: cancel after poll {}", polls));
                    g.wakes.clear();
                    return (RunEnd::Cancelled(polls), DriveStats { polls });
                }
                if polls >= poll_cap {
                    drop(fut);
                    return (RunEnd::Hung(format!("poll cap {} reached", poll_cap)), DriveStats { polls });
                }
                let adv = w.lock().unwrap().advance();
                match adv {
                    AdvanceResult::Woken => {}
                    AdvanceResult::ClientTimeout => {
                        drop(fut);
                        let mut g = w.lock().unwrap();
                        g.fire("cancel");
                        g.note(format!("client: timeout, cancel after poll {}", polls));
                        g.wakes.clear();
                        g.cancel_at_tick = None;
                        return (RunEnd::Cancelled(polls), DriveStats { polls });
                    }
                    AdvanceResult::Idle => {
                        drop(fut);
                        return (
                            RunEnd::Hung("task pending with no registered wake".into()),
                            DriveStats { polls },
                        );
                    }
                }
            }
        }
    }
}
