//! C20: resolution does not depend on what the compiler instance compiled
//! before.  Two arms per world: the target after a history of 0..4 resolutions
//! on one instance (ended by success, error, injected store error, cancellation
//! or compiler failure), and the target on a fresh, identically configured
//! instance.  Both target runs happen on fresh threads started with the same
//! hash seed against the same static store, so they differ in nothing but the
//! compiler's past.  In a share of worlds the crash point of the last history
//! element is swept exhaustively over all its await points, store calls and
//! rounds.

use serde_json::json;
use tx3_tir::model::v1beta0 as tir;
use tx3_tir::reduce::ArgMap;

use crate::chain::SimChain;
use crate::compiler::SimCompiler;
use crate::core::{Tier, WorldReport};
use crate::exec::guarded;
use crate::gen::*;
use crate::rsim::*;
use crate::tape::Tape;
use crate::chain::SimUtxo;
use crate::world::{FaultCfg, World};

pub fn world(_tier: Tier, world_no: u64, mut tape: Tape) -> WorldReport {
    let hseed = tape.draw(1 << 32);
    crate::entropy::in_world(hseed, move || {
        let mut rep = WorldReport {
            world: world_no,
            ..Default::default()
        };
        let mut tape = tape;
        if let Err(p) = guarded(|| inner(&mut tape, &mut rep)) {
            rep.harness_error = Some(format!("harness panic: {} at {}:{}", p.message, p.file, p.line));
        }
        rep.tape = tape.data.clone();
        rep
    })
}

#[derive(Clone, Debug)]
enum Ending {
    Natural,
    ErrAtCall(u64),
    CancelAfter(u32),
    CfailCompile(usize),
    CfailOp(usize),
    /// not a resolution at all: the caller hands the instance a constant template directly
    /// (`Compiler::compile`), which leaves a body behind without any resolution having started
    DirectCompile,
}

struct HistItem {
    tx: tir::Tx,
    name: String,
    args: ArgMap,
    max_rounds: usize,
    ending: Ending,
    /// simulated real time at which this request arrives (the instance may have served the
    /// previous one a second or a year earlier)
    start_ns: u64,
}

fn uses_min_utxo(tx: &tir::Tx) -> bool {
    // structural: does the serialised TIR mention the compiler op?
    let v = format!("{tx:?}");
    v.contains("ComputeMinUtxo")
}

fn run_item(chain: &SimChain, comp: &mut SimCompiler, item: &HistItem, log: &mut Vec<String>) -> (Outcome, u32, u64, usize) {
    if let Ending::DirectCompile = item.ending {
        // resolve on a scratch instance (identically configured) to obtain a constant template,
        // then compile that template directly on the instance under test
        use tx3_tir::compile::Compiler as _;
        let mut scratch = SimCompiler::new(tx3_cardano::Compiler::new(
            tx3_cardano::PParams {
                network: comp.inner.pparams.network,
                min_fee_coefficient: comp.inner.pparams.min_fee_coefficient,
                min_fee_constant: comp.inner.pparams.min_fee_constant,
                coins_per_utxo_byte: comp.inner.pparams.coins_per_utxo_byte,
                cost_models: comp.inner.pparams.cost_models.clone(),
            },
            comp.inner.config.clone(),
            comp.inner.cursor.clone(),
        ));
        let natural = HistItem {
            tx: item.tx.clone(),
            name: item.name.clone(),
            args: item.args.clone(),
            max_rounds: item.max_rounds,
            ending: Ending::Natural,
            start_ns: item.start_ns,
        };
        let mut l2 = vec![];
        let (o, polls, calls, _) = run_item(chain, &mut scratch, &natural, &mut l2);
        let mut compiled = 0;
        if let Some(last) = scratch.rounds.iter().rev().find(|r| r.out.is_ok()) {
            let any = tx3_tir::encoding::AnyTir::V1Beta0(last.tir.clone());
            let _ = crate::exec::guarded(|| comp.inner.compile(&any).map(|_| ()));
            compiled = 1;
        }
        log.push(format!(
            "{} [DirectCompile] -> {} on a scratch instance, its last round compiled directly here: {} (body left: {})",
            item.name,
            o.kind(),
            compiled,
            comp.inner.latest_tx_body.is_some()
        ));
        return (o, polls, calls, compiled);
    }
    let mut w = World::new(Tape::replay(vec![]));
    w.chain = chain.clone();
    w.clock_base_ns = item.start_ns;
    let mut cancel = None;
    comp.fail_compile_at = None;
    comp.fail_op_at = None;
    match &item.ending {
        Ending::Natural => {}
        Ending::ErrAtCall(k) => {
            w.cfg = FaultCfg {
                err_at_call: Some(*k),
                ..Default::default()
            }
        }
        Ending::CancelAfter(k) => {
            // every store call yields once so that there are await points to cancel at
            w.cfg = FaultCfg {
                lat_max: 0,
                ..Default::default()
            };
            cancel = Some(*k);
        }
        Ending::CfailCompile(r) => comp.fail_compile_at = Some(*r),
        Ending::CfailOp(r) => comp.fail_op_at = Some(*r),
        Ending::DirectCompile => unreachable!(),
    }
    // latency of exactly one tick on every call: a fixed, draw-free schedule with real await points
    w.cfg.lat_max = 0;
    let w = w.into_shared();
    w.lock().unwrap().cfg.lat_max = 0;
    // whenever nothing has to be injected into the compiler, the real instance is handed to the
    // resolver directly; the wrapper is only in the way then (it is needed to fail one compile or
    // one compiler op, and by the scratch run of DirectCompile to record the rounds)
    let plain = matches!(item.ending, Ending::Natural | Ending::ErrAtCall(_) | Ending::CancelAfter(_)) && !comp.record;
    let (outcome, polls, compiles) = if plain {
        #[allow(unused_imports)]
        use crate::rsim::ThroughPointee as _;
        let (o, polls) = crate::rsim::Handle(&mut comp.inner).resolve(&w, &item.tx, &item.args, item.max_rounds, cancel);
        (o, polls, usize::MAX)
    } else {
        let res = resolve_once(&w, &item.tx, &item.args, comp, item.max_rounds, cancel);
        (res.outcome, res.polls, comp.compiles)
    };
    comp.fail_compile_at = None;
    comp.fail_op_at = None;
    let g = w.lock().unwrap();
    log.push(format!(
        "{} [{:?}] -> {} ({} polls, {} store calls, body left: {})",
        item.name,
        item.ending,
        outcome.kind(),
        polls,
        g.res_calls,
        comp.inner.latest_tx_body.is_some()
    ));
    (outcome, polls, g.res_calls, compiles)
}

fn same(a: &Outcome, b: &Outcome) -> bool {
    match (a, b) {
        (Outcome::Ok(x), Outcome::Ok(y)) => x.payload == y.payload && x.hash == y.hash && x.fee == y.fee,
        // the same *kind* of error: the enum path, not the block it names
        (Outcome::Err { kind: x, .. }, Outcome::Err { kind: y, .. }) => {
            let strip = |k: &str| k.split("InputNotResolved").next().map(|p| p.len()).map(|n| k[..(n + if k.contains("InputNotResolved") { 16 } else { 0 }).min(k.len())].to_string()).unwrap_or_default();
            strip(x) == strip(y)
        }
        (Outcome::Panic(x), Outcome::Panic(y)) => x.site() == y.site(),
        (Outcome::Cancelled(_), Outcome::Cancelled(_)) => true,
        (Outcome::Hung(_), Outcome::Hung(_)) => true,
        _ => false,
    }
}

fn describe(o: &Outcome) -> String {
    match o {
        Outcome::Ok(c) => format!("Ok(hash {} fee {} len {})", hex::encode(&c.hash[..6]), c.fee, c.payload.len()),
        Outcome::Err { kind, text } => format!("Err({kind}: {})", text.chars().take(80).collect::<String>()),
        other => other.kind(),
    }
}

fn inner(t: &mut Tape, rep: &mut WorldReport) {
    let hseed_target = 1 + t.draw(1 << 32);
    // half of the worlds use the wide protocol-parameter space: with a small fee (coefficient /
    // constant / margin near zero) or a large coins_per_utxo_byte, a few bytes of difference in the
    // body a min_utxo(..) is sized from decide whether a round's threshold is covered
    let wide = t.chance(1, 2);
    let mut pp = draw_pparams(t, wide);
    if t.chance(1, 3) {
        // nearly free transactions: the fee no longer dwarfs a few bytes x coins_per_utxo_byte
        pp.coef = *t.pick(&[0u64, 1]);
        pp.constant = *t.pick(&[0u64, 2]);
        pp.extra = *t.pick(&[Some(0u64), Some(1)]);
        pp.cpb = *t.pick(&[4310u64, 100_000, 1000]);
    }
    pp.mainnet = t.chance(1, 5);
    let profile = *t.pick(&[Profile::Fee, Profile::Rich, Profile::Selection]);
    let force_min_utxo = if t.chance(3, 4) { Some(true) } else { None };
    let optional_bias = t.chance(1, 2);
    let rich_directives = t.chance(1, 3);
    let program = gen_program(
        t,
        &GenCfg {
            profile,
            mainnet: pp.mainnet,
            max_txs: 3,
            force_min_utxo,
            // witnesses, redeemers and withdrawals: what the instance may remember of a script
            // transaction (language, cost-model view) must not reach the next one
            rich_directives,
            optional_bias,
            datum_bias: false,
        },
    );
    let source = program.source();
    let lowered = match guarded(|| crate::front::lower_all(&source)) {
        Ok(Ok(x)) => x,
        other => {
            rep.harness_error = Some(format!("front end rejected generated program: {other:?}\n{source}"));
            return;
        }
    };
    let mut w0 = World::new(Tape::replay(vec![]));
    let lcfg = LedgerCfg {
        size: 1 + t.index(6),
        dist: match t.draw(4) {
            0 => AmountDist::Tight,
            1 | 2 => AmountDist::Threshold(pp.cpb, 170 + t.draw(120)),
            _ => AmountDist::Comfortable,
        },
        // no tied candidates: which of two equal UTxOs is picked depends on how much hash entropy the
        // thread has consumed, which a diverging first round changes - not what C20 is about
        ties: false,
        distinct: true,
        hostile_datums: false,
    };
    gen_ledger(t, &mut w0, &program, &lcfg);
    let chain = w0.chain.clone();

    let mk_item = |t: &mut Tape, natural: bool, chain: &SimChain| -> HistItem {
        let spec = &program.txs[t.index(program.txs.len())];
        let dist = if t.chance(1, 5) { ArgDist::Boundary } else { ArgDist::Small };
        let plan = gen_args(t, &program, spec, chain, dist);
        let ending = if natural {
            Ending::Natural
        } else {
            match t.weighted(&[4, 2, 2, 1, 1, 2]) {
                0 => Ending::Natural,
                1 => Ending::ErrAtCall(1 + t.draw(12)),
                2 => Ending::CancelAfter(1 + t.draw(16) as u32),
                3 => Ending::CfailCompile(t.index(4)),
                4 => Ending::CfailOp(t.index(4)),
                _ => Ending::DirectCompile,
            }
        };
        HistItem {
            tx: lowered[&spec.name].clone(),
            name: spec.name.clone(),
            args: plan.args,
            max_rounds: *t.pick(&[3usize, 0, 6]),
            ending,
            start_ns: 0,
        }
    };
    let hlen = t.weighted(&[1, 4, 3, 2, 1]);
    let mut history: Vec<HistItem> = (0..hlen).map(|_| mk_item(t, false, &chain)).collect();
    // In a third of the worlds the transactions the history produced are *submitted*: the target is
    // then resolved against the ledger as they left it (in both arms), and its reference arguments
    // may name their outputs - a server resolves B after A was sent, and B spends or reads what A made.
    // The instance under test runs the history first (all but its last element, whose ending varies).
    let submit_history = hlen > 1 && t.chance(1, 3);
    let mut chain = chain;
    let mut pre_comp = SimCompiler::new(make_compiler(&pp));
    pre_comp.record = false;
    let mut pre_log: Vec<String> = vec![];
    let mut pre_ran = 0usize;
    if submit_history {
        for item in history.iter().take(hlen - 1) {
            let (o, _, _, _) = run_item(&chain, &mut pre_comp, item, &mut pre_log);
            pre_ran += 1;
            if let Outcome::Ok(c) = &o {
                if let Ok(d) = crate::txread::decode_tx(&c.payload) {
                    if d.inputs.iter().all(|i| chain.utxos.contains_key(i)) {
                        for i in &d.inputs {
                            chain.spend(i);
                        }
                        for (ix, o) in d.outputs.iter().enumerate() {
                            chain.utxos.insert(
                                (c.hash.clone(), ix as u32),
                                SimUtxo {
                                    address: o.address.clone(),
                                    value: crate::txread::value_of_output(o),
                                    datum: None,
                                    script: None,
                                },
                            );
                        }
                        rep.fire("history-tx-submitted");
                    }
                }
            }
        }
    }
    let chain = chain;
    let target = mk_item(t, true, &chain);
    // a *sibling request* as the last thing the instance saw before the target: the same
    // template and arguments, except that every Bytes argument has other content of the same
    // length (another witness script, another metadata blob) - or the very same request. Whatever
    // an instance remembers of a transaction under too coarse a key is hit exactly by this.
    let mut hlen = hlen;
    if t.chance(1, 3) {
        let mut sib_args = target.args.clone();
        if t.chance(3, 4) {
            for (_, v) in sib_args.iter_mut() {
                if let tx3_tir::reduce::ArgValue::Bytes(b) = v {
                    for x in b.iter_mut() {
                        *x ^= 0x5A;
                    }
                }
            }
        }
        history.push(HistItem {
            tx: target.tx.clone(),
            name: format!("{} (sibling request)", target.name),
            args: sib_args,
            max_rounds: target.max_rounds,
            // it may also have been cut short: a retry of a request that hit a store error or was
            // cancelled is the everyday case of "the same request again"
            ending: match t.weighted(&[3, 1, 1]) {
                0 => Ending::Natural,
                1 => Ending::ErrAtCall(1 + t.draw(12)),
                _ => Ending::CancelAfter(1 + t.draw(16) as u32),
            },
            start_ns: 0,
        });
        hlen += 1;
        rep.fire("sibling-request-before-target");
    }
    // requests arrive at different times: a second, an hour, a day or more than a year apart (the
    // clock seam shows this to anything in the instance that looks at a clock); both arms run the
    // target at the same time
    let gap_ns: u64 = *t.pick(&[0u64, 1_000_000_000, 3_600_000_000_000, 86_400_000_000_000, 400 * 86_400_000_000_000]);
    for (i, h) in history.iter_mut().enumerate() {
        h.start_ns = i as u64 * gap_ns;
    }
    let mut target = target;
    target.start_ns = (history.len() as u64 + 1) * gap_ns;
    let sweep = hlen > 0 && t.chance(1, 4);
    let target_min_utxo = uses_min_utxo(&target.tx);

    let mut log: Vec<String> = vec![];
    // ---- fresh arm
    let mut fresh_log = vec![];
    // the instance is built outside the target thread in both arms, so that the target thread
    // consumes exactly the same hash entropy in both
    let mut fresh_comp = SimCompiler::new(make_compiler(&pp));
    fresh_comp.record = false;
    let (fresh, _, _, fresh_compiles) = crate::entropy::in_world(hseed_target, || run_item(&chain, &mut fresh_comp, &target, &mut fresh_log));
    let cap = target.max_rounds.max(3) + 2;
    log.push(format!("fresh arm: {}", describe(&fresh)));

    // ---- history arm(s)
    let mut comp = if submit_history { pre_comp } else { SimCompiler::new(make_compiler(&pp)) };
    comp.record = false;
    log.extend(pre_log);
    let last = history.pop();
    for item in history.iter().skip(pre_ran) {
        run_item(&chain, &mut comp, item, &mut log);
    }
    let body_before_last = comp.inner.latest_tx_body.clone();
    let mut variants: Vec<Ending> = vec![];
    let mut evals = 0u64;
    if let Some(last) = &last {
        variants.push(last.ending.clone());
        if sweep {
            // learn the extent of the last element, then sweep every crash point
            let mut probe_comp = SimCompiler::new(make_compiler(&pp));
            probe_comp.record = false;
            probe_comp.inner.latest_tx_body = body_before_last.clone();
            let probe = HistItem {
                ending: Ending::Natural,
                tx: last.tx.clone(),
                name: last.name.clone(),
                args: last.args.clone(),
                max_rounds: last.max_rounds,
                start_ns: last.start_ns,
            };
            let mut scratch = vec![];
            let (_, polls, calls, rounds) = run_item(&chain, &mut probe_comp, &probe, &mut scratch);
            variants.clear();
            // the tape-chosen ending first: it runs on the very instance that served the history
            variants.push(last.ending.clone());
            variants.push(Ending::Natural);
            for k in 1..=calls.min(40) {
                variants.push(Ending::ErrAtCall(k));
            }
            for k in 1..polls.min(40) {
                variants.push(Ending::CancelAfter(k));
            }
            for r in 0..rounds.min(8) {
                variants.push(Ending::CfailCompile(r));
            }
            for r in 0..4 {
                variants.push(Ending::CfailOp(r));
            }
            rep.probe("crash-point-sweep");
        }
    }
    if variants.is_empty() {
        variants.push(Ending::Natural); // empty history
    }
    let mut sig = crate::tape::Digest::default();
    // the first variant runs on the instance that really served the history (whatever it keeps, in
    // whatever field); the further crash points of a sweep run on fresh instances that start from the
    // body the history left (the instance cannot be cloned)
    let mut real = Some(comp);
    for (vi, ending) in variants.iter().enumerate() {
        let mut c = match (vi, real.take()) {
            (0, Some(r)) => r,
            _ => {
                let mut c = SimCompiler::new(make_compiler(&pp));
                c.inner.latest_tx_body = body_before_last.clone();
                c
            }
        };
        c.record = false;
        let mut vlog = vec![];
        if let Some(last) = &last {
            let item = HistItem {
                ending: ending.clone(),
                tx: last.tx.clone(),
                name: last.name.clone(),
                args: last.args.clone(),
                max_rounds: last.max_rounds,
                start_ns: last.start_ns,
            };
            let (o, _, _, _) = run_item(&chain, &mut c, &item, &mut vlog);
            match (&o, ending) {
                (Outcome::Cancelled(_), _) => {
                    rep.fire("cancel");
                    if c.inner.latest_tx_body.is_some() {
                        rep.probe("cancelled-with-body-left");
                    }
                }
                (Outcome::Err { kind, .. }, Ending::ErrAtCall(_)) if kind.contains("StoreError") => rep.fire("err-store"),
                (Outcome::Err { .. }, Ending::CfailCompile(_)) | (Outcome::Err { .. }, Ending::CfailOp(_)) => rep.fire("cfail"),
                _ => {}
            }
            if let Outcome::Panic(p) = &o {
                rep.violate("C14", "P1-panic", p.site(), format!("history element panicked: {}", p.message));
            }
        }
        let stale_body = c.inner.latest_tx_body.is_some();
        if stale_body {
            rep.fire("reuse");
        }
        let (hist, _, _, hist_compiles) = crate::entropy::in_world(hseed_target, || run_item(&chain, &mut c, &target, &mut vlog));
        evals += 1;
        sig.str(&hist.kind().chars().take(20).collect::<String>());
        sig.u64(stale_body as u64);
        if stale_body && target_min_utxo {
            rep.probe("target-read-stale-body");
        }
        if !same(&hist, &fresh) {
            let _ = (hist_compiles, fresh_compiles, cap);
            let pair = match (&hist, &fresh) {
                (Outcome::Ok(_), Outcome::Ok(_)) => "both-succeed-differently",
                (Outcome::Ok(_), _) => "succeeds-only-after-the-history",
                (_, Outcome::Ok(_)) => "succeeds-only-on-a-fresh-instance",
                _ => "fail-differently",
            };
            let shape = if target_min_utxo && stale_body {
                format!("min_utxo+body-left-by-history/{pair}")
            } else if target_min_utxo {
                format!("target-uses-min_utxo/{pair}")
            } else {
                format!("target-without-min_utxo/{pair}")
            };
            rep.violate(
                "C20",
                "H-outcome",
                shape,
                format!(
                    "target `{}` after history ending {:?}: {} but on a fresh instance: {}",
                    target.name,
                    ending,
                    describe(&hist),
                    describe(&fresh)
                ),
            );
        }
        if variants.len() == 1 || !same(&hist, &fresh) {
            log.extend(vlog);
            log.push(format!("history arm ({ending:?}): {}", describe(&hist)));
        }
    }

    let mut d = crate::tape::Digest::default();
    for l in &log {
        d.str(l);
    }
    rep.digest = d.0;
    rep.sig = sig.0;
    rep.events = log.len() as u64;
    rep.evaluations = evals;
    rep.nontrivial = hlen > 0 && !matches!(fresh, Outcome::Err { ref kind, .. } if kind == "MissingTxArg");
    rep.sample = Some(json!({
        "engine": "resolver-sim (two-arm history comparison)",
        "pparams": pp.describe(),
        "source": source,
        "ledger": chain.describe(),
        "history_len": hlen,
        "sweep": sweep,
        "crash_points": variants.len(),
        "target": target.name,
        "target_uses_min_utxo": target_min_utxo,
        "events": log,
    }));
}
