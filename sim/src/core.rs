//! Reports, violations, known findings.

use std::collections::BTreeMap;

use serde::{Deserialize, Serialize};

#[derive(Clone, Debug, Serialize, Deserialize, PartialEq)]
pub struct Violation {
    pub property: String,
    /// oracle clause id, e.g. "S2-ref"
    pub class: String,
    /// shape signature: identifies the *specific* failing shape
    pub shape: String,
    pub message: String,
}

#[derive(Clone, Debug, Default, Serialize, Deserialize)]
pub struct WorldReport {
    pub world: u64,
    pub digest: u64,
    pub violations: Vec<Violation>,
    pub fired: BTreeMap<String, u64>,
    pub probes: BTreeMap<String, u64>,
    pub ticks: u64,
    pub events: u64,
    pub evaluations: u64,
    pub nontrivial: bool,
    pub sig: u64,
    pub stub_calls: u64,
    #[serde(default, skip_serializing_if = "Option::is_none")]
    pub sample: Option<serde_json::Value>,
    #[serde(default, skip_serializing_if = "Option::is_none")]
    pub harness_error: Option<String>,
    #[serde(default, skip_serializing_if = "Vec::is_empty")]
    pub tape: Vec<u64>,
}

impl WorldReport {
    pub fn violate(&mut self, property: &str, class: &str, shape: impl Into<String>, message: impl Into<String>) {
        let v = Violation {
            property: property.to_string(),
            class: class.to_string(),
            shape: shape.into(),
            message: message.into(),
        };
        // one report per (property, class, shape) and world
        if !self
            .violations
            .iter()
            .any(|x| x.property == v.property && x.class == v.class && x.shape == v.shape)
        {
            self.violations.push(v);
        }
    }
    pub fn probe(&mut self, k: &str) {
        *self.probes.entry(k.to_string()).or_insert(0) += 1;
    }
    pub fn fire(&mut self, k: &str) {
        *self.fired.entry(k.to_string()).or_insert(0) += 1;
    }
}

#[derive(Clone, Debug, Serialize, Deserialize)]
pub struct KnownFinding {
    pub property: String,
    pub class: String,
    pub shape: String,
    pub what: String,
    pub status: String,
    #[serde(default)]
    pub commit: Option<String>,
}

pub fn load_known(path: &str) -> Vec<KnownFinding> {
    let Ok(s) = std::fs::read_to_string(path) else {
        return vec![];
    };
    s.lines()
        .filter(|l| !l.trim().is_empty())
        .filter_map(|l| serde_json::from_str::<KnownFinding>(l).ok())
        .collect()
}

pub fn is_known<'a>(known: &'a [KnownFinding], v: &Violation) -> Option<&'a KnownFinding> {
    known
        .iter()
        .find(|k| k.status == "known" && k.property == v.property && k.class == v.class && k.shape == v.shape)
}

#[derive(Clone, Copy, Debug, PartialEq)]
pub enum Tier {
    Quick,
    Thorough,
}

impl Tier {
    pub fn name(&self) -> &'static str {
        match self {
            Tier::Quick => "quick",
            Tier::Thorough => "thorough",
        }
    }
}
