//! Random well-formed IR trees (every Expression / Param / BuiltInOp / Coerce /
//! CompilerOp variant, every block kind), up to a stated depth: what an
//! untrusted client may put on the wire.  Used by wire-sim (C11 round trip)
//! and by the back-end stratum of C14.

use std::collections::{HashMap, HashSet};

use tx3_tir::model::assets::{AssetClass, CanonicalAssets};
use tx3_tir::model::core::{Type, Utxo, UtxoRef};
use tx3_tir::model::v1beta0::*;

use crate::tape::Tape;

pub struct TirGen<'a> {
    pub t: &'a mut Tape,
    pub params: Vec<(String, Type)>,
    /// one query per input name, as in a lowered program (every mention of an input carries the same query)
    pub queries: std::collections::BTreeMap<String, InputQuery>,
    pub inputs: Vec<String>,
    /// closed: no ExpectValue / ExpectInput / ExpectFees leaves (the IR is already applied)
    pub closed: bool,
}

/// UTxO sets in random trees hold at most one element: `into_datum` of a larger set takes the
/// hash-first element, an entropy effect that the wire and stage checks must not be charged with
const MAX_SET: usize = 1;

fn some_bytes(t: &mut Tape) -> Vec<u8> {
    // now and then a byte string longer than any decoder scratch buffer (scripts, big datums)
    let n = if t.chance(1, 40) {
        *t.pick(&[4097usize, 4096, 5000, 70_000])
    } else {
        *t.pick(&[28usize, 0, 1, 4, 29, 32, 57, 64])
    };
    (0..n).map(|i| (i as u8).wrapping_mul(7).wrapping_add(t.draw(4) as u8)).collect()
}

fn some_int(t: &mut Tape) -> i128 {
    *t.pick(&[
        1i128,
        0,
        -1,
        2_000_000,
        23,
        24,
        255,
        256,
        1 << 32,
        i64::MAX as i128,
        (i64::MAX as i128) + 1,
        u64::MAX as i128,
        (u64::MAX as i128) + 1,
        -(1i128 << 64),
        -(1i128 << 64) - 1,
        i128::MAX,
        i128::MIN,
    ])
}

pub fn some_ref(t: &mut Tape) -> UtxoRef {
    let n = *t.pick(&[32usize, 32, 0, 1, 31, 33]);
    UtxoRef {
        txid: (0..n).map(|i| 0x40 + (i as u8 % 5) + t.draw(2) as u8).collect(),
        index: *t.pick(&[0u32, 1, 7, u32::MAX]),
    }
}

pub fn some_utxo(t: &mut Tape, depth: u32) -> Utxo {
    let mut assets = CanonicalAssets::from_naked_amount(some_int(t));
    if t.chance(1, 2) {
        let class = match t.draw(3) {
            0 => AssetClass::Defined(some_bytes(t), b"TK".to_vec()),
            1 => AssetClass::Named(some_bytes(t)),
            _ => AssetClass::Defined(vec![0x11; 28], vec![]),
        };
        assets = assets + CanonicalAssets::from_class_and_amount(class, some_int(t));
    }
    let datum = if depth > 0 && t.chance(1, 2) {
        let mut g = TirGen {
            t,
            params: vec![],
            queries: Default::default(),
            inputs: vec![],
            closed: true,
        };
        Some(g.expr(depth.min(2)))
    } else {
        None
    };
    Utxo {
        r#ref: some_ref(t),
        address: {
            let n = *t.pick(&[29usize, 57, 0, 1, 28]);
            let mut a = vec![0x60u8; n.min(1)];
            a.extend(std::iter::repeat(0xA0).take(n.saturating_sub(1)));
            a
        },
        assets,
        datum,
        script: if t.chance(1, 6) { Some(Expression::Bytes(vec![1, 2, 3])) } else { None },
    }
}

impl<'a> TirGen<'a> {
    /// parameter names carry their type, as in a lowered program (one declaration per name)
    fn name_for(&mut self, ty: &Type) -> String {
        let tag = match ty {
            Type::Int => "int",
            Type::Bytes => "bytes",
            Type::Bool => "bool",
            Type::Address => "addr",
            Type::UtxoRef => "ref",
            Type::Undefined => "undef",
            Type::List => "list",
            _ => "custom",
        };
        // ... nor to one type per name: the same name may be referenced with two types
        if self.t.chance(1, 12) {
            return "p_shared".to_string();
        }
        // an IR a client sends is not bound to the lower-case names the tx3 front end emits
        match self.t.draw(4) {
            0 => format!("P_{}{}", tag.to_uppercase(), self.t.draw(3)),
            1 => format!("p{}{}", tag[..1].to_uppercase() + &tag[1..], self.t.draw(3)),
            _ => format!("p_{}{}", tag, self.t.draw(3)),
        }
    }

    fn input_param(&mut self, name: String, depth: u32) -> Expression {
        if !self.queries.contains_key(&name) {
            let q = self.query(depth);
            self.queries.insert(name.clone(), q);
        }
        self.inputs.push(name.clone());
        Expression::EvalParam(Box::new(Param::ExpectInput(name.clone(), self.queries[&name].clone())))
    }

    fn ty(&mut self) -> Type {
        match self.t.draw(8) {
            0 => Type::Int,
            1 => Type::Bytes,
            2 => Type::Bool,
            3 => Type::Address,
            4 => Type::UtxoRef,
            5 => Type::Undefined,
            6 => Type::List,
            // user-defined type names, including ones that read like built-in types
            _ => Type::Custom(self.t.pick(&["Rec", "Unit", "Rec", "Int", "List", "Utxo", "Map", "Undefined"]).to_string()),
        }
    }

    pub fn leaf(&mut self) -> Expression {
        match self.t.draw(12) {
            0 => Expression::None,
            1 => Expression::Number(some_int(self.t)),
            2 => Expression::Bytes(some_bytes(self.t)),
            3 => Expression::Bool(self.t.chance(1, 2)),
            4 => {
                if self.t.chance(1, 6) {
                    // long text with multi-byte characters around the 64-byte marks
                    let pad = *self.t.pick(&[63usize, 62, 64, 127, 61]);
                    let tail = *self.t.pick(&["ña (ref 77)", "日本語のメモ", "é", "😀😀", "plain ascii tail"]);
                    Expression::String(format!("{}{}", "m".repeat(pad), tail))
                } else {
                    Expression::String(self.t.pick(&["", "abc", "dead#1", "00#0", "addr_test1xyz", "é"]).to_string())
                }
            }
            5 => Expression::Address(some_bytes(self.t)),
            6 => Expression::Hash(some_bytes(self.t)),
            7 => Expression::UtxoRefs((0..self.t.index(3)).map(|_| some_ref(self.t)).collect()),
            8 => {
                let n = self.t.index(MAX_SET + 1);
                let mut s = HashSet::new();
                for _ in 0..n {
                    s.insert(some_utxo(self.t, 1));
                }
                Expression::UtxoSet(s)
            }
            9 if !self.closed => {
                let ty = self.ty();
                let n = self.name_for(&ty);
                self.params.push((n.clone(), ty.clone()));
                Expression::EvalParam(Box::new(Param::ExpectValue(n, ty)))
            }
            10 if !self.closed => Expression::EvalParam(Box::new(Param::ExpectFees)),
            _ => Expression::Number(some_int(self.t)),
        }
    }

    pub fn asset(&mut self, depth: u32) -> AssetExpr {
        AssetExpr {
            policy: if self.t.chance(1, 3) { Expression::None } else { self.expr(depth.min(1)) },
            asset_name: if self.t.chance(1, 3) { Expression::None } else { self.expr(depth.min(1)) },
            amount: if self.t.chance(2, 3) { Expression::Number(some_int(self.t)) } else { self.expr(depth.min(1)) },
        }
    }

    /// something that reads as a multi-asset value
    pub fn assetish(&mut self, depth: u32) -> Expression {
        match self.t.draw(5) {
            0 => Expression::None,
            1 => {
                let mut s = HashSet::new();
                s.insert(some_utxo(self.t, 0));
                Expression::EvalCoerce(Box::new(Coerce::IntoAssets(Expression::UtxoSet(s))))
            }
            _ => Expression::Assets((0..1 + self.t.index(2)).map(|_| self.asset(depth)).collect()),
        }
    }

    pub fn query(&mut self, depth: u32) -> InputQuery {
        InputQuery {
            address: if self.t.chance(1, 2) { Expression::None } else { self.expr(depth) },
            min_amount: if self.t.chance(1, 2) {
                Expression::Assets((0..self.t.index(3)).map(|_| self.asset(depth)).collect())
            } else {
                self.expr(depth)
            },
            r#ref: if self.t.chance(1, 2) { Expression::None } else { self.expr(depth) },
            many: self.t.chance(1, 2),
            collateral: self.t.chance(1, 4),
        }
    }

    pub fn expr(&mut self, depth: u32) -> Expression {
        if depth == 0 || self.t.chance(1, 4) {
            return self.leaf();
        }
        let d = depth - 1;
        match self.t.draw(17) {
            0 => Expression::List((0..self.t.index(4)).map(|_| self.expr(d)).collect()),
            1 => Expression::Map((0..self.t.index(3)).map(|_| (self.expr(d), self.expr(d))).collect()),
            2 => Expression::Tuple(Box::new((self.expr(d), self.expr(d)))),
            3 => Expression::Struct(StructExpr {
                constructor: *self.t.pick(&[0usize, 1, 6, 7, 127, 128, 1000, 1 << 32, (1 << 32) + 5, usize::MAX]),
                fields: (0..self.t.index(4)).map(|_| self.expr(d)).collect(),
            }),
            4 => Expression::Assets((0..self.t.index(3)).map(|_| self.asset(d)).collect()),
            5 | 6 => {
                // arithmetic: half of the time over operands of the same family (numbers or asset values)
                let (a, b) = match self.t.draw(4) {
                    0 => (Expression::Number(some_int(self.t)), Expression::Number(some_int(self.t))),
                    1 => (self.assetish(d), self.assetish(d)),
                    _ => (self.expr(d), self.expr(d)),
                };
                if self.t.chance(1, 2) {
                    Expression::EvalBuiltIn(Box::new(BuiltInOp::Add(a, b)))
                } else {
                    Expression::EvalBuiltIn(Box::new(BuiltInOp::Sub(a, b)))
                }
            }
            7 => Expression::EvalBuiltIn(Box::new(BuiltInOp::Concat(self.expr(d), self.expr(d)))),
            8 => Expression::EvalBuiltIn(Box::new(BuiltInOp::Negate(self.expr(d)))),
            9 => Expression::EvalBuiltIn(Box::new(BuiltInOp::Property(self.expr(d), self.expr(d.min(1))))),
            10 => Expression::EvalBuiltIn(Box::new(BuiltInOp::NoOp(self.expr(d)))),
            11 => Expression::EvalCoerce(Box::new(match self.t.draw(8) {
                0 => Coerce::NoOp(self.expr(d)),
                1 | 2 | 3 => Coerce::IntoAssets(self.expr(d)),
                4 | 5 | 6 => Coerce::IntoDatum(self.expr(d)),
                _ => Coerce::IntoScript(self.expr(d)),
            })),
            12 => Expression::EvalCompiler(Box::new(match self.t.draw(5) {
                0 => CompilerOp::BuildScriptAddress(self.expr(d)),
                1 => CompilerOp::ComputeMinUtxo(self.expr(d)),
                2 => CompilerOp::ComputeTipSlot,
                3 => CompilerOp::ComputeSlotToTime(self.expr(d)),
                _ => CompilerOp::ComputeTimeToSlot(self.expr(d)),
            })),
            13 => Expression::EvalParam(Box::new(Param::Set(self.expr(d)))),
            14 if !self.closed => {
                let n = format!("in{}", self.t.draw(3));
                self.input_param(n, d)
            }
            15 => Expression::AdHocDirective(Box::new(self.adhoc(d))),
            _ => self.leaf(),
        }
    }

    pub fn adhoc(&mut self, depth: u32) -> AdHocDirective {
        let name = self
            .t
            .pick(&[
                "withdrawal",
                "withdraw",
                "plutus_witness",
                "native_witness",
                "treasury_donation",
                "vote_delegation_certificate",
                "cardano_publish",
                "unknown_directive",
            ])
            .to_string();
        let mut data = HashMap::new();
        // two thirds of the time: the keys that directive expects, mostly with values of the expected kind
        let expected: &[&str] = match name.as_str() {
            "withdrawal" | "withdraw" => &["credential", "amount", "redeemer"],
            "plutus_witness" => &["version", "script"],
            "native_witness" => &["script"],
            "treasury_donation" => &["coin"],
            "vote_delegation_certificate" => &["drep", "stake"],
            "cardano_publish" => &["to", "amount", "datum", "version", "script"],
            _ => &["amount"],
        };
        let shaped = self.t.chance(2, 3);
        let keys: Vec<&str> = if shaped {
            expected.to_vec()
        } else {
            vec!["credential", "amount", "redeemer", "version", "script", "coin", "drep", "stake", "to", "datum", "from"]
        };
        for k in keys {
            let present = if shaped { self.t.chance(5, 6) } else { self.t.chance(1, 3) };
            if !present {
                continue;
            }
            let typed = if shaped { self.t.chance(4, 5) } else { self.t.chance(1, 2) };
            let v = match (typed, k) {
                (true, "version") => Expression::Number(*self.t.pick(&[0i128, 1, 2, 3, 4, -1, 256])),
                (true, "script") | (true, "drep") => Expression::Bytes(some_bytes(self.t)),
                (true, "amount") if name == "cardano_publish" || self.t.chance(1, 3) => Expression::Assets(vec![AssetExpr {
                    policy: Expression::None,
                    asset_name: Expression::None,
                    amount: Expression::Number(*self.t.pick(&[2_000_000i128, 0, -5, 1 << 40])),
                }]),
                (true, "amount") | (true, "coin") => Expression::Number(some_int(self.t)),
                (true, "credential") | (true, "stake") | (true, "to") | (true, "from") => {
                    let (hdr, n) = *self.t.pick(&[(0x60u8, 28usize), (0x00, 56), (0xE0, 28), (0x60, 27), (0x00, 0)]);
                    let mut a = vec![hdr];
                    a.extend(std::iter::repeat(0xB0).take(n));
                    Expression::Address(a)
                }
                (true, "redeemer") | (true, "datum") => self.expr(1),
                _ => self.expr(depth),
            };
            data.insert(k.to_string(), v);
        }
        AdHocDirective { name, data }
    }

    pub fn tx(&mut self, depth: u32) -> Tx {
        let d = depth;
        Tx {
            fees: if self.closed || self.t.chance(1, 3) {
                Expression::Assets(vec![AssetExpr {
                    policy: Expression::None,
                    asset_name: Expression::None,
                    amount: Expression::Number(*self.t.pick(&[200_000i128, 0, -1, (u64::MAX as i128) + 1])),
                }])
            } else if self.t.chance(1, 2) {
                Expression::EvalParam(Box::new(Param::ExpectFees))
            } else {
                self.expr(d)
            },
            references: (0..self.t.index(2)).map(|_| self.expr(d)).collect(),
            inputs: (0..self.t.index(3))
                .map(|i| Input {
                    name: format!("in{i}"),
                    utxos: if self.closed || self.t.chance(1, 2) {
                        let mut s = HashSet::new();
                        for _ in 0..(1 + self.t.index(MAX_SET)) {
                            s.insert(some_utxo(self.t, 1));
                        }
                        Expression::UtxoSet(s)
                    } else {
                        self.input_param(format!("in{i}"), d)
                    },
                    redeemer: if self.t.chance(1, 3) { self.expr(d) } else { Expression::None },
                })
                .collect(),
            outputs: (0..self.t.index(4))
                .map(|_| Output {
                    address: self.expr(d.min(2)),
                    datum: if self.t.chance(1, 2) { Expression::None } else { self.expr(d) },
                    amount: if self.t.chance(2, 3) {
                        Expression::Assets((0..self.t.index(3)).map(|_| self.asset(d)).collect())
                    } else {
                        self.expr(d)
                    },
                    optional: self.t.chance(1, 4),
                })
                .collect(),
            validity: if self.t.chance(1, 3) {
                Some(Validity {
                    since: self.expr(d.min(2)),
                    until: self.expr(d.min(2)),
                })
            } else {
                None
            },
            mints: (0..self.t.index(2))
                .map(|_| Mint {
                    amount: if self.t.chance(2, 3) {
                        Expression::Assets((0..self.t.index(3)).map(|_| self.asset(d)).collect())
                    } else {
                        self.expr(d)
                    },
                    redeemer: if self.t.chance(1, 2) { self.expr(d) } else { Expression::None },
                })
                .collect(),
            burns: (0..self.t.index(2))
                .map(|_| Mint {
                    amount: Expression::Assets((0..self.t.index(2)).map(|_| self.asset(d)).collect()),
                    redeemer: Expression::None,
                })
                .collect(),
            adhoc: (0..self.t.index(3)).map(|_| self.adhoc(d.min(2))).collect(),
            collateral: (0..self.t.index(2))
                .map(|_| Collateral {
                    utxos: if self.t.chance(1, 2) {
                        let mut s = HashSet::new();
                        s.insert(some_utxo(self.t, 0));
                        Expression::UtxoSet(s)
                    } else {
                        self.expr(d.min(2))
                    },
                })
                .collect(),
            signers: if self.t.chance(1, 3) {
                Some(Signers {
                    signers: (0..self.t.index(3)).map(|_| self.expr(d.min(2))).collect(),
                })
            } else {
                None
            },
            metadata: (0..self.t.index(3))
                .map(|_| Metadata {
                    key: self.expr(d.min(1)),
                    value: self.expr(d.min(2)),
                })
                .collect(),
        }
    }
}
