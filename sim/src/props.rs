//! Property registry: which engine serves which property, world budgets, evidence texts.

use crate::core::{Tier, WorldReport};
use crate::tape::Tape;

pub struct PropInfo {
    pub engine: &'static str,
    pub quick: u64,
    pub thorough: u64,
    pub rule: &'static str,
    pub real: Vec<&'static str>,
    pub stubbed: Vec<&'static str>,
    pub assumptions: Vec<&'static str>,
}

const REAL_RESOLVER: [&str; 6] = [
    "tx3-lang parser/analyzer/lowering (generated source text goes through the real front end)",
    "tx3-tir reducer and Apply traversals",
    "tx3-resolver resolve_tx / eval_pass / inputs::{narrow,select,resolve}",
    "tx3-cardano Compiler (compile, reduce_op) with real pallas encoding",
    "std HashMap/HashSet with RandomState keyed through the interposed getrandom",
    "tx3-cardano latest_tx_body state across rounds and resolutions",
];
const STUB_RESOLVER: [&str; 5] = [
    "UTxO store and chain: SimStore/SimChain (in-memory ledger implementing the real UtxoStore trait)",
    "executor, clock and event queue (no-op waker, integer ticks)",
    "clients: retry / timeout / cancel / submit policy",
    "process entropy (getrandom override, per-world hash seed)",
    "SimCompiler is a delegating wrapper (records rounds, may fail one call); all compilation is real",
];

pub fn prop_info(prop: &str) -> PropInfo {
    let resolver_rule = "one world = one tape: swarm config, generated tx3 source (real front end), ledger, args, fault plan, 1-3 resolutions through the real resolve_tx / inputs::resolve on the simulated store. evaluations = resolutions run; a world is non-trivial when at least two store calls were answered; distinct = distinct event-log digests (FNV-1a over every store call, answer, fault, chain event and outcome) among non-trivial worlds";
    match prop {
        "C02" | "C03" | "C04" | "C05" | "C10" | "C14" => PropInfo {
            engine: "resolver-sim",
            quick: match prop {
                "C03" | "C04" => 200_000,
                _ => 120_000,
            },
            thorough: match prop {
                "C03" | "C04" => 6_000_000,
                _ => 4_000_000,
            },
            rule: resolver_rule,
            real: REAL_RESOLVER.to_vec(),
            stubbed: STUB_RESOLVER.to_vec(),
            assumptions: vec![
                "SimStore index semantics: ByAddress = unspent at address; ByAsset = unspent holding a positive amount; fetch omits unknown/spent refs",
                "pallas conway::Tx decode is the 'standard decoder'; body fields are read by an independent ciborium-based reader",
                "Blake2b-256 from pallas-crypto (sampled transactions can be cross-checked with python hashlib from the evidence samples)",
                "seeded search: a clean batch is evidence, not proof",
            ],
        },
        "C07" => PropInfo {
            engine: "stage-sim",
            quick: 30_000,
            thorough: 600_000,
            rule: "one world = one template (generated program or example) with drawn arguments (split into 1-3 partial applications), UTxO sets per query (optionally applied block by block) and fee; 6 tape-drawn schedules: a permutation of the pending stage operations with optional interleaved reduce / compiler-op passes (compiler pass only when every built-in's operands are literal), each closed by the same saturation; compared with the reference schedule by canonical bytes. evaluations = schedules run; non-trivial = at least two distinct schedules in the world; distinct = digest of (template, distinct schedule traces, reference state)",
            real: vec![
                "tx3-lang front end (templates are lowered from source text)",
                "tx3-tir Apply::{apply_args,apply_inputs,apply_fees,reduce}, Node::apply",
                "tx3-cardano Compiler::reduce_op for compiler-evaluated built-ins",
            ],
            stubbed: vec!["the caller that sequences the stages (the scheduler)", "process entropy (per-world hash seed)"],
            assumptions: vec![
                "canon() normalises only order inside UtxoSets / hash maps and Assets lists as per-class sums with zero entries dropped",
                "a compiler pass is in the quantifier only when nothing but literals and other compiler ops sits below every EvalCompiler node",
                "inputs whose datum the template reads receive singleton UTxO sets (`first of a HashSet` is an entropy effect, not a schedule effect)",
                "outcomes are compared as Ok(canonical state) or Err; which stage reports an error may depend on the order",
            ],
        },
        "C11" => PropInfo {
            engine: "wire-sim",
            quick: 60_000,
            thorough: 1_500_000,
            rule: "one world = one TIR (lowered from a generated program or example, optionally with arguments / inputs / fees applied and reduced) encoded by the real to_bytes in a producer world, passed through a channel that is fault-free (2 in 5) or applies 1-4 damages (bit flip, truncation, chunk duplication, overwrite, splice, nesting bomb up to depth 100000, huge length header, random bytes, version string), and decoded by the real TirVersion::try_from + from_bytes in a consumer thread with different hash entropy and the default 2 MiB stack. evaluations = artifacts decoded; every world is non-trivial; distinct = digest of the bytes on the wire + version",
            real: vec![
                "tx3-lang front end, tx3-tir Apply/reduce (producer side)",
                "tx3-tir encoding::to_bytes / from_bytes / TirVersion::try_from with real ciborium",
                "tx3-tir find_params / find_queries / apply_* / reduce for the meaning comparison",
            ],
            stubbed: vec!["the channel (file / network) between producer and consumer", "process entropy of the two sides"],
            assumptions: vec![
                "meaning is compared through canon(): order inside hash containers and zero / split asset entries are immaterial",
                "a damaged artifact that still decodes is not a C11 violation (no checksum is promised); it is forwarded to the back end under C14",
                "abort / stack overflow in the consumer kills the worker process; the supervisor pins the world and reports it",
            ],
        },
        "C16" => PropInfo {
            engine: "wire-sim",
            quick: 40_000,
            thorough: 1_000_000,
            rule: "one world = (a) for each argument type one intended value rendered through a tape-chosen admissible encoding and one ill-formed rendering, through the real from_json; (b) one resolve request built by an independent client model (parameters split between args and env, undeclared extras, hex/base64 envelope with any of the field aliases), sent fault-free (1 in 2), with 1-3 message faults (content damage, encoding tag, version, field loss / move / duplication, type confusion, field replaced by arbitrary JSON, TIR byte damage) or as an arbitrary JSON document, through the real serde_json::from_value::<ResolveParams> + parse_resolve_request in a consumer thread. evaluations = from_json calls + requests; distinct = digest of rendered values and request document",
            real: vec![
                "tx3-resolver interop::from_json and helpers",
                "tx3-resolver trp::parse_resolve_request, ResolveParams / TirEnvelope deserialisation",
                "tx3-tir from_bytes, find_params",
            ],
            stubbed: vec!["the client (independent encoder of argument values)", "the JSON channel and its faults"],
            assumptions: vec![
                "admissible encodings are the ones the property lists; \"+5\"-style decimal strings and repeated 0x prefixes are not probed",
                "J2 is judged only on fault-free requests; under faults only `no panic` is judged",
                "a client never supplies one key under both args and env in the fault-free stratum",
            ],
        },
        "C18" => PropInfo {
            engine: "entropy-sim",
            quick: 3_000,
            thorough: 60_000,
            rule: "one world = one program (every example under /repo/examples once, then generated programs rich in multi-field cardano:: directives): parse+analyze+lower+to_bytes in 8 threads with distinct tape-drawn hash seeds plus 20 repetitions on one thread; for every example and 1 in 24 generated programs also `tx3c build --emit tii` in 3 fresh processes under the LD_PRELOAD entropy shim. evaluations = encodings compared; non-trivial = the front end accepts the program; distinct = distinct digests of the encoded bytes",
            real: vec![
                "tx3-lang parser/analyzer/lowering",
                "tx3-tir to_bytes (ciborium) over every map/set in the model",
                "the shipped tx3c binary built from /repo (process-level runs)",
                "std RandomState / HashMap iteration order",
            ],
            stubbed: vec!["process entropy: getrandom override in-process, LD_PRELOAD shim for tx3c"],
            assumptions: vec![
                "std takes hash keys from the interposable getrandom symbol (self-checked at start-up)",
                "8 hash seeds per program: two orders of a 2-field map coincide with probability 1/2 per seed pair, so a missed difference needs all 7 comparisons to coincide",
            ],
        },
        "C20" => PropInfo {
            engine: "resolver-sim",
            quick: 80_000,
            thorough: 600_000,
            rule: "one world = one tape: program, static ledger, a history of 0..4 resolutions on one compiler instance with tape-chosen endings (success, error, store error at call k, cancel after poll k, compiler failure at round r), then the target on that instance and on a fresh one, both on fresh threads with the same hash seed. In a quarter of the worlds with a history the ending of the last element is swept exhaustively over all its store calls, await points and rounds. evaluations = (history, target) pairs compared; non-trivial = history not empty and target has all its arguments; distinct = distinct digests of the per-arm outcome log",
            real: REAL_RESOLVER.to_vec(),
            stubbed: STUB_RESOLVER.to_vec(),
            assumptions: vec![
                "reference model: a fresh tx3_cardano::Compiler with equal pparams, config and cursor",
                "both arms run the target against the same static store under the same hash seed, so only the instance's past differs",
                "the crash-point sweep is exhaustive per sampled (history, target) pair, not over pairs",
            ],
        },
        _ => PropInfo {
            engine: "?",
            quick: 1000,
            thorough: 10_000,
            rule: "",
            real: vec![],
            stubbed: vec![],
            assumptions: vec![],
        },
    }
}

pub fn run_world(prop: &str, tier: Tier, n: u64, tape: Tape) -> WorldReport {
    match prop {
        "C02" | "C03" | "C04" | "C05" | "C10" => crate::p_resolver::world(prop, tier, n, tape),
        // C14 listens to every engine
        "C14" => match n % 8 {
            3 => crate::p_resolver::world_examples(tier, n, tape),
            4 => crate::p_wire::world_ir(tier, n, tape),
            5 => crate::p_wire::world_c11(tier, n, tape),
            6 => crate::p_wire::world_c16(tier, n, tape),
            7 => crate::p_stage::world(tier, n, tape),
            _ => crate::p_resolver::world(prop, tier, n, tape),
        },
        "C11" => crate::p_wire::world_c11(tier, n, tape),
        "C16" => crate::p_wire::world_c16(tier, n, tape),
        "C20" => crate::p_c20::world(tier, n, tape),
        "C18" => crate::p_entropy::world_c18(tier, n, tape),
        "C07" => crate::p_stage::world(tier, n, tape),
        _ => WorldReport {
            harness_error: Some(format!("no engine for property {prop}")),
            ..Default::default()
        },
    }
}
