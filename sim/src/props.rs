//! Property registry: which engine serves which property, world budgets, evidence texts.

use crate::core::{Tier, WorldReport};
use crate::tape::Tape;

pub struct PropInfo {
    pub engine: &'static str,
    pub quick: u64,
    pub thorough: u64,
    pub rule: &'static str,
    pub real: Vec<&'static str>,
    pub stubbed: Vec<&'static str>,
    pub assumptions: Vec<&'static str>,
}

const REAL_RESOLVER: [&str; 6] = [
    "tx3-lang parser/analyzer/lowering (generated source text goes through the real front end)",
    "tx3-tir reducer and Apply traversals",
    "tx3-resolver resolve_tx / eval_pass / inputs::{narrow,select,resolve}",
    "tx3-cardano Compiler (compile, reduce_op) with real pallas encoding",
    "std HashMap/HashSet with RandomState keyed through the interposed getrandom",
    "tx3-cardano latest_tx_body state across rounds and resolutions",
];
const STUB_RESOLVER: [&str; 5] = [
    "UTxO store and chain: SimStore/SimChain (in-memory ledger implementing the real UtxoStore trait)",
    "executor, clock and event queue (no-op waker, integer ticks)",
    "clients: retry / timeout / cancel / submit policy",
    "process entropy (getrandom override, per-world hash seed)",
    "SimCompiler is a delegating wrapper (records rounds, may fail one call); all compilation is real",
];

pub fn prop_info(prop: &str) -> PropInfo {
    let resolver_rule = "one world = one tape: swarm config, generated tx3 source (real front end), ledger, args, fault plan, 1-3 resolutions through the real resolve_tx / inputs::resolve on the simulated store. evaluations = resolutions run; a world is non-trivial when at least two store calls were answered; distinct = distinct event-log digests (FNV-1a over every store call, answer, fault, chain event and outcome) among non-trivial worlds";
    match prop {
        "C02" | "C03" | "C04" | "C05" | "C10" | "C14" => PropInfo {
            engine: "resolver-sim",
            quick: match prop {
                "C03" | "C04" => 40_000,
                _ => 24_000,
            },
            thorough: match prop {
                "C03" | "C04" => 1_500_000,
                _ => 800_000,
            },
            rule: resolver_rule,
            real: REAL_RESOLVER.to_vec(),
            stubbed: STUB_RESOLVER.to_vec(),
            assumptions: vec![
                "SimStore index semantics: ByAddress = unspent at address; ByAsset = unspent holding a positive amount; fetch omits unknown/spent refs",
                "pallas conway::Tx decode is the 'standard decoder'; body fields are read by an independent ciborium-based reader",
                "Blake2b-256 from pallas-crypto (sampled transactions can be cross-checked with python hashlib from the evidence samples)",
                "seeded search: a clean batch is evidence, not proof",
            ],
        },
        "C18" => PropInfo {
            engine: "entropy-sim",
            quick: 3_000,
            thorough: 100_000,
            rule: "one world = one program (every example under /repo/examples once, then generated programs rich in multi-field cardano:: directives): parse+analyze+lower+to_bytes in 8 threads with distinct tape-drawn hash seeds plus 20 repetitions on one thread; for every example and 1 in 24 generated programs also `tx3c build --emit tii` in 3 fresh processes under the LD_PRELOAD entropy shim. evaluations = encodings compared; non-trivial = the front end accepts the program; distinct = distinct digests of the encoded bytes",
            real: vec![
                "tx3-lang parser/analyzer/lowering",
                "tx3-tir to_bytes (ciborium) over every map/set in the model",
                "the shipped tx3c binary built from /repo (process-level runs)",
                "std RandomState / HashMap iteration order",
            ],
            stubbed: vec!["process entropy: getrandom override in-process, LD_PRELOAD shim for tx3c"],
            assumptions: vec![
                "std takes hash keys from the interposable getrandom symbol (self-checked at start-up)",
                "8 hash seeds per program: two orders of a 2-field map coincide with probability 1/2 per seed pair, so a missed difference needs all 7 comparisons to coincide",
            ],
        },
        "C20" => PropInfo {
            engine: "resolver-sim",
            quick: 6_000,
            thorough: 300_000,
            rule: "one world = one tape: program, static ledger, a history of 0..4 resolutions on one compiler instance with tape-chosen endings (success, error, store error at call k, cancel after poll k, compiler failure at round r), then the target on that instance and on a fresh one, both on fresh threads with the same hash seed. In a quarter of the worlds with a history the ending of the last element is swept exhaustively over all its store calls, await points and rounds. evaluations = (history, target) pairs compared; non-trivial = history not empty and target has all its arguments; distinct = distinct digests of the per-arm outcome log",
            real: REAL_RESOLVER.to_vec(),
            stubbed: STUB_RESOLVER.to_vec(),
            assumptions: vec![
                "reference model: a fresh tx3_cardano::Compiler with equal pparams, config and cursor",
                "both arms run the target against the same static store under the same hash seed, so only the instance's past differs",
                "the crash-point sweep is exhaustive per sampled (history, target) pair, not over pairs",
            ],
        },
        _ => PropInfo {
            engine: "?",
            quick: 1000,
            thorough: 10_000,
            rule: "",
            real: vec![],
            stubbed: vec![],
            assumptions: vec![],
        },
    }
}

pub fn run_world(prop: &str, tier: Tier, n: u64, tape: Tape) -> WorldReport {
    match prop {
        "C02" | "C03" | "C04" | "C05" | "C10" | "C14" => crate::p_resolver::world(prop, tier, n, tape),
        "C20" => crate::p_c20::world(tier, n, tape),
        "C18" => crate::p_entropy::world_c18(tier, n, tape),
        _ => WorldReport {
            harness_error: Some(format!("no engine for property {prop}")),
            ..Default::default()
        },
    }
}
