//! Clock seam (N6'): nothing in tx3 reads a real clock on the unchanged tree, and the simulator
//! makes sure it would notice if that changed.  The binary defines `clock_gettime` itself, so
//! std's `Instant::now()` / `SystemTime::now()` (and anything else in the process that asks libc
//! for the time) resolve to this function.  On a world thread the answer is the world's simulated
//! time (ticks x the world's tick length); on every other thread (supervisor, budgets) the real
//! system call answers.  Every read on a world thread is counted (`clock-read` probe).

use std::cell::Cell;

thread_local! {
    static ON: Cell<bool> = const { Cell::new(false) };
    static NOW_NS: Cell<u64> = const { Cell::new(0) };
    static READS: Cell<u64> = const { Cell::new(0) };
    /// a step of the wall clock (NTP correction, operator): REALTIME only
    static RT_STEP_NS: Cell<i64> = const { Cell::new(0) };
}

/// wall-clock origin of every world: 2025-09-11T17:23:28Z (the cursor timestamp the worlds use)
pub const REALTIME_BASE_S: i64 = 1_757_611_408;
/// monotonic origin: an uptime of a little over an hour
pub const MONOTONIC_BASE_S: i64 = 4_000;

pub fn enable_on_this_thread() {
    ON.with(|o| o.set(true));
    NOW_NS.with(|n| n.set(0));
    READS.with(|r| r.set(0));
}

pub fn set_now_ns(ns: u64) {
    NOW_NS.with(|n| n.set(ns));
}

pub fn set_realtime_step(ns: i64) {
    RT_STEP_NS.with(|n| n.set(ns));
}

pub fn reads() -> u64 {
    READS.with(|r| r.get())
}

#[no_mangle]
pub unsafe extern "C" fn clock_gettime(clk: libc::clockid_t, ts: *mut libc::timespec) -> libc::c_int {
    // thread-locals may be gone while a thread is torn down: fall back to the real clock then
    let on = ON.try_with(|o| o.get()).unwrap_or(false);
    if !on || ts.is_null() {
        return libc::syscall(libc::SYS_clock_gettime, clk, ts) as libc::c_int;
    }
    let _ = READS.try_with(|r| r.set(r.get() + 1));
    let ns = NOW_NS.try_with(|n| n.get()).unwrap_or(0);
    let (base, step) = match clk {
        libc::CLOCK_REALTIME | libc::CLOCK_REALTIME_COARSE => (REALTIME_BASE_S, RT_STEP_NS.try_with(|n| n.get()).unwrap_or(0)),
        _ => (MONOTONIC_BASE_S, 0),
    };
    let total: i128 = base as i128 * 1_000_000_000 + ns as i128 + step as i128;
    let total = total.max(0);
    (*ts).tv_sec = (total / 1_000_000_000) as i64;
    (*ts).tv_nsec = (total % 1_000_000_000) as i64;
    0
}

/// Self-check of the seam; Err => harness error (exit 2).
pub fn self_check() -> Result<(), String> {
    let r = std::thread::spawn(|| {
        enable_on_this_thread();
        set_now_ns(7_000_000_000);
        let a = std::time::Instant::now();
        let s = std::time::SystemTime::now().duration_since(std::time::UNIX_EPOCH).map(|d| d.as_secs()).unwrap_or(0);
        set_now_ns(12_500_000_000);
        let d = a.elapsed();
        (d.as_millis(), s, reads())
    })
    .join()
    .map_err(|_| "clock seam: probe thread panicked".to_string())?;
    if r.0 != 5_500 || r.1 != (REALTIME_BASE_S as u64 + 7) || r.2 < 3 {
        return Err(format!("clock seam: std does not read the interposed clock_gettime (elapsed {} ms, epoch {} s, {} reads)", r.0, r.1, r.2));
    }
    // and an ordinary thread still sees real time moving
    let t0 = std::time::Instant::now();
    std::thread::sleep(std::time::Duration::from_millis(2));
    if t0.elapsed().as_micros() < 1_000 {
        return Err("clock seam: the real clock no longer advances on harness threads".into());
    }
    Ok(())
}
