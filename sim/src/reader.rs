//! Structural reader over `ciborium::Value::serialized(&tir)` (the generic CBOR
//! tree also carries integers beyond 64 bits) and `canon()`, which normalises
//! only what the TIR's own semantics declares immaterial: order inside UtxoSets
//! and hash maps, and `Assets` lists as per-class sums with zero entries
//! dropped.

use ciborium::value::Value as V;

pub fn to_value<T: serde::Serialize>(t: &T) -> V {
    V::serialized(t).expect("TIR serialises to a CBOR value")
}

fn enc(v: &V) -> Vec<u8> {
    let mut b = vec![];
    ciborium::into_writer(v, &mut b).expect("encode value");
    b
}

fn as_i128(v: &V) -> Option<i128> {
    crate::txread::as_int(v)
}

fn int_value(n: i128) -> V {
    V::serialized(&n).expect("int")
}

/// `{"Number": n}`
fn number_of(v: &V) -> Option<i128> {
    let m = v.as_map()?;
    if m.len() != 1 {
        return None;
    }
    match &m[0] {
        (V::Text(k), n) if k == "Number" => as_i128(n),
        _ => None,
    }
}

fn const_bytes_or_none(v: &V) -> Option<Option<Vec<u8>>> {
    match v {
        V::Text(t) if t == "None" => Some(None),
        V::Map(m) if m.len() == 1 => match &m[0] {
            (V::Text(k), V::Bytes(b)) if k == "Bytes" => Some(Some(b.clone())),
            (V::Text(k), V::Array(a)) if k == "Bytes" => {
                // Vec<u8> serialises as an array of small ints
                let mut out = vec![];
                for x in a {
                    out.push(as_i128(x)? as u8);
                }
                Some(Some(out))
            }
            (V::Text(k), V::Text(s)) if k == "String" => Some(Some(s.as_bytes().to_vec())),
            _ => None,
        },
        _ => None,
    }
}

fn field<'a>(m: &'a [(V, V)], name: &str) -> Option<&'a V> {
    m.iter().find(|(k, _)| matches!(k, V::Text(t) if t == name)).map(|(_, v)| v)
}

/// Normalise an `Assets` list whose entries are all constant into a sorted list of
/// (policy, name, sum) with zero sums dropped; leave it alone otherwise.
fn canon_assets(list: &[V]) -> Option<V> {
    let mut sums: std::collections::BTreeMap<(Option<Vec<u8>>, Option<Vec<u8>>), i128> = Default::default();
    for e in list {
        let m = e.as_map()?;
        let policy = const_bytes_or_none(field(m, "policy")?)?;
        let name = const_bytes_or_none(field(m, "asset_name")?)?;
        let amount = number_of(field(m, "amount")?)?;
        // CanonicalAssets::from_asset: empty policy falls back to named / naked
        let key = match (policy, name) {
            (Some(p), n) if !p.is_empty() => (Some(p), Some(n.unwrap_or_default())),
            (_, Some(n)) if !n.is_empty() => (None, Some(n)),
            _ => (None, None),
        };
        let slot = sums.entry(key).or_insert(0);
        *slot = slot.checked_add(amount)?;
    }
    let mut out = vec![];
    for ((p, n), amt) in sums {
        if amt == 0 {
            continue;
        }
        out.push(V::Array(vec![
            p.map(V::Bytes).unwrap_or(V::Null),
            n.map(V::Bytes).unwrap_or(V::Null),
            int_value(amt),
        ]));
    }
    Some(V::Array(out))
}

pub fn canon(v: &V) -> V {
    match v {
        V::Map(m) => {
            // single-key enum wrappers get variant-aware treatment
            if m.len() == 1 {
                if let (V::Text(k), inner) = &m[0] {
                    if k == "UtxoSet" {
                        if let V::Array(a) = inner {
                            let mut items: Vec<V> = a.iter().map(canon).collect();
                            items.sort_by_key(enc);
                            return V::Map(vec![(V::Text(k.clone()), V::Array(items))]);
                        }
                    }
                    if k == "Assets" {
                        if let V::Array(a) = inner {
                            let inner_c: Vec<V> = a.iter().map(canon).collect();
                            if let Some(n) = canon_assets(&inner_c) {
                                return V::Map(vec![(V::Text(k.clone()), n)]);
                            }
                            // not summable (a non-constant entry, or a per-class sum beyond i128): the order
                            // of an asset list is immaterial all the same
                            let mut inner_c = inner_c;
                            inner_c.sort_by_key(enc);
                            return V::Map(vec![(V::Text(k.clone()), V::Array(inner_c))]);
                        }
                    }
                }
            }
            let mut entries: Vec<(V, V)> = m.iter().map(|(k, v)| (canon(k), canon(v))).collect();
            // drop zero entries of value maps (CanonicalAssets of a Utxo): keys are asset classes, values ints
            entries.sort_by_key(|(k, _)| enc(k));
            V::Map(entries)
        }
        V::Array(a) => V::Array(a.iter().map(canon).collect()),
        V::Tag(t, inner) => V::Tag(*t, Box::new(canon(inner))),
        other => other.clone(),
    }
}

pub fn canon_bytes<T: serde::Serialize>(t: &T) -> Vec<u8> {
    enc(&canon(&to_value(t)))
}

/// Is there an `EvalCompiler` node anywhere, and are all of them "ready": nothing but
/// literals and other compiler ops below them (no EvalParam / EvalBuiltIn / EvalCoerce)?
pub fn compiler_ops_state(v: &V) -> (bool, bool) {
    fn has_unready(v: &V) -> bool {
        match v {
            V::Map(m) => m.iter().any(|(k, x)| {
                matches!(k, V::Text(t) if t == "EvalParam" || t == "EvalBuiltIn" || t == "EvalCoerce") || has_unready(x)
            }),
            V::Array(a) => a.iter().any(has_unready),
            V::Tag(_, x) => has_unready(x),
            _ => false,
        }
    }
    fn walk(v: &V, any: &mut bool, all_ready: &mut bool) {
        match v {
            V::Map(m) => {
                for (k, x) in m {
                    if matches!(k, V::Text(t) if t == "EvalCompiler") {
                        *any = true;
                        if has_unready(x) {
                            *all_ready = false;
                        }
                    }
                    walk(x, any, all_ready);
                }
            }
            V::Array(a) => a.iter().for_each(|x| walk(x, any, all_ready)),
            V::Tag(_, x) => walk(x, any, all_ready),
            V::Text(t) if t == "ComputeTipSlot" => {}
            _ => {}
        }
    }
    let (mut any, mut ready) = (false, true);
    walk(v, &mut any, &mut ready);
    (any, ready)
}
