/* LD_PRELOAD shim for the real tx3c binary (C18, process level).
 *
 * 1. Entropy seam.  std's RandomState takes its SipHash keys from getrandom(2) through a weak
 *    symbol that std documents as an interposition point.  The bytes handed out here are a pure
 *    function of VERIF_HASH_SEED and the call counter.
 *
 * 2. File-system seam (only when VERIF_SCHED_DIR, VERIF_SCHED_OUT and VERIF_SCHED_IN are set).
 *    Every file-system call that touches a path under VERIF_SCHED_DIR - open / creat / openat,
 *    write, fsync, fdatasync, ftruncate, rename, unlink, close - is a scheduling point: the
 *    process announces the call on the pipe VERIF_SCHED_OUT ("op detail\n") and parks until the
 *    simulator answers with one byte on VERIF_SCHED_IN:
 *        g  go ahead
 *        k  crash now, before the call (_exit(137))
 *        K  perform the call, then crash
 *        i  fail the call with EINTR (nothing done)
 *        s  short write: write only the first half (write only)
 *        e  fail the call with EIO (nothing done)
 *        n  fail the call with ENOSPC (nothing done)
 *    The simulator thus decides, from its tape, how the calls of several processes interleave and
 *    where each process dies or meets an I/O error; which process runs is never left to the kernel
 *    while one of them is inside the scheduled directory.  tx3c is single-threaded. */
#define _GNU_SOURCE
#include <dlfcn.h>
#include <errno.h>
#include <fcntl.h>
#include <stdarg.h>
#include <stddef.h>
#include <stdint.h>
#include <stdio.h>
#include <stdlib.h>
#include <string.h>
#include <sys/types.h>
#include <unistd.h>

static uint64_t state;
static int init;

static uint64_t splitmix(void) {
    uint64_t z = (state += 0x9E3779B97F4A7C15ull);
    z = (z ^ (z >> 30)) * 0xBF58476D1CE4E5B9ull;
    z = (z ^ (z >> 27)) * 0x94D049BB133111EBull;
    return z ^ (z >> 31);
}

ssize_t getrandom(void *buf, size_t len, unsigned int flags) {
    (void)flags;
    if (!init) {
        const char *s = getenv("VERIF_HASH_SEED");
        state = s ? strtoull(s, NULL, 10) : 0;
        state ^= 0x5851F42D4C957F2Dull;
        splitmix();
        init = 1;
    }
    unsigned char *p = buf;
    size_t i = 0;
    while (i < len) {
        uint64_t v = splitmix();
        for (int k = 0; k < 8 && i < len; k++, i++) p[i] = (unsigned char)(v >> (8 * k));
    }
    return (ssize_t)len;
}

/* ------------------------------------------------------------------ file-system seam */

static int sched_init_done, sched_on, fd_out = -1, fd_in = -1;
static char sched_dir[512];
#define MAXFD 1024
static unsigned char tracked[MAXFD];

static ssize_t (*real_write)(int, const void *, size_t);
static ssize_t (*real_read)(int, void *, size_t);
static int (*real_close)(int);

static void sched_setup(void) {
    if (sched_init_done) return;
    sched_init_done = 1;
    real_write = dlsym(RTLD_NEXT, "write");
    real_read = dlsym(RTLD_NEXT, "read");
    real_close = dlsym(RTLD_NEXT, "close");
    const char *d = getenv("VERIF_SCHED_DIR"), *o = getenv("VERIF_SCHED_OUT"), *i = getenv("VERIF_SCHED_IN");
    if (d && o && i && strlen(d) < sizeof sched_dir) {
        strcpy(sched_dir, d);
        fd_out = atoi(o);
        fd_in = atoi(i);
        sched_on = 1;
    }
}

static int under_dir(const char *path) {
    return sched_on && path && strncmp(path, sched_dir, strlen(sched_dir)) == 0;
}

/* announce the call and wait for the verdict */
static char ask(const char *op, const char *detail, long n) {
    char line[900];
    int len = snprintf(line, sizeof line, "%s %s %ld\n", op, detail ? detail : "-", n);
    if (len < 0) return 'g';
    if (len >= (int)sizeof line) len = sizeof line - 1, line[len - 1] = '\n';
    ssize_t off = 0;
    while (off < len) {
        ssize_t w = real_write(fd_out, line + off, (size_t)(len - off));
        if (w < 0) {
            if (errno == EINTR) continue;
            return 'g'; /* the simulator is gone: run free */
        }
        off += w;
    }
    char c = 'g';
    for (;;) {
        ssize_t r = real_read(fd_in, &c, 1);
        if (r == 1) break;
        if (r < 0 && errno == EINTR) continue;
        return 'g';
    }
    if (c == 'k') _exit(137);
    return c;
}

static int verdict_errno(char c) {
    switch (c) {
    case 'i': return EINTR;
    case 'e': return EIO;
    case 'n': return ENOSPC;
    default: return 0;
    }
}

static const char *fdname(int fd, char *buf, size_t n) {
    char link[64];
    snprintf(link, sizeof link, "/proc/self/fd/%d", fd);
    ssize_t r = readlink(link, buf, n - 1);
    if (r < 0) r = 0;
    buf[r] = 0;
    return buf;
}

static int do_open(const char *name, int (*real)(const char *, int, ...), const char *path, int flags, mode_t mode) {
    sched_setup();
    if (!under_dir(path)) return real(path, flags, mode);
    char c = ask(name, path, flags);
    int e = verdict_errno(c);
    if (e) {
        errno = e;
        return -1;
    }
    int fd = real(path, flags, mode);
    if (fd >= 0 && fd < MAXFD) tracked[fd] = 1;
    if (c == 'K') _exit(137);
    return fd;
}

int open(const char *path, int flags, ...) {
    static int (*real)(const char *, int, ...);
    if (!real) real = dlsym(RTLD_NEXT, "open");
    mode_t mode = 0;
    if (flags & (O_CREAT | O_TMPFILE)) {
        va_list ap;
        va_start(ap, flags);
        mode = va_arg(ap, mode_t);
        va_end(ap);
    }
    return do_open("open", real, path, flags, mode);
}

int open64(const char *path, int flags, ...) {
    static int (*real)(const char *, int, ...);
    if (!real) real = dlsym(RTLD_NEXT, "open64");
    mode_t mode = 0;
    if (flags & (O_CREAT | O_TMPFILE)) {
        va_list ap;
        va_start(ap, flags);
        mode = va_arg(ap, mode_t);
        va_end(ap);
    }
    return do_open("open", real, path, flags, mode);
}

int openat(int dirfd, const char *path, int flags, ...) {
    static int (*real)(int, const char *, int, ...);
    if (!real) real = dlsym(RTLD_NEXT, "openat");
    mode_t mode = 0;
    if (flags & (O_CREAT | O_TMPFILE)) {
        va_list ap;
        va_start(ap, flags);
        mode = va_arg(ap, mode_t);
        va_end(ap);
    }
    sched_setup();
    if (!under_dir(path)) return real(dirfd, path, flags, mode);
    char c = ask("open", path, flags);
    int e = verdict_errno(c);
    if (e) {
        errno = e;
        return -1;
    }
    int fd = real(dirfd, path, flags, mode);
    if (fd >= 0 && fd < MAXFD) tracked[fd] = 1;
    if (c == 'K') _exit(137);
    return fd;
}

int openat64(int dirfd, const char *path, int flags, ...) {
    mode_t mode = 0;
    if (flags & (O_CREAT | O_TMPFILE)) {
        va_list ap;
        va_start(ap, flags);
        mode = va_arg(ap, mode_t);
        va_end(ap);
    }
    return openat(dirfd, path, flags, mode);
}

ssize_t write(int fd, const void *buf, size_t n) {
    sched_setup();
    if (!sched_on || fd < 0 || fd >= MAXFD || !tracked[fd]) return real_write(fd, buf, n);
    char name[600];
    char c = ask("write", fdname(fd, name, sizeof name), (long)n);
    int e = verdict_errno(c);
    if (e) {
        errno = e;
        return -1;
    }
    if (c == 's' && n > 1) n = n / 2;
    ssize_t r = real_write(fd, buf, n);
    if (c == 'K') _exit(137);
    return r;
}

static int by_fd(const char *op, const char *sym, int fd, long arg, int kind) {
    sched_setup();
    int (*real1)(int) = NULL;
    int (*real2)(int, off_t) = NULL;
    if (kind == 1) real1 = dlsym(RTLD_NEXT, sym); else real2 = dlsym(RTLD_NEXT, sym);
    if (!sched_on || fd < 0 || fd >= MAXFD || !tracked[fd]) return kind == 1 ? real1(fd) : real2(fd, (off_t)arg);
    char name[600];
    char c = ask(op, fdname(fd, name, sizeof name), arg);
    int e = verdict_errno(c);
    if (e) {
        errno = e;
        return -1;
    }
    int r = kind == 1 ? real1(fd) : real2(fd, (off_t)arg);
    if (c == 'K') _exit(137);
    return r;
}

int fsync(int fd) { return by_fd("fsync", "fsync", fd, 0, 1); }
int fdatasync(int fd) { return by_fd("fsync", "fdatasync", fd, 0, 1); }
int ftruncate(int fd, off_t len) { return by_fd("truncate", "ftruncate", fd, (long)len, 2); }
int ftruncate64(int fd, off_t len) { return by_fd("truncate", "ftruncate64", fd, (long)len, 2); }

int close(int fd) {
    sched_setup();
    if (!sched_on || fd < 0 || fd >= MAXFD || !tracked[fd]) return real_close(fd);
    char name[600];
    char c = ask("close", fdname(fd, name, sizeof name), 0);
    tracked[fd] = 0;
    /* close is not failed: std ignores its result; a crash verdict still applies */
    int r = real_close(fd);
    if (c == 'K') _exit(137);
    return r;
}

int rename(const char *from, const char *to) {
    static int (*real)(const char *, const char *);
    if (!real) real = dlsym(RTLD_NEXT, "rename");
    sched_setup();
    if (!under_dir(from) && !under_dir(to)) return real(from, to);
    char both[880];
    snprintf(both, sizeof both, "%s->%s", from, to);
    char c = ask("rename", both, 0);
    int e = verdict_errno(c);
    if (e) {
        errno = e;
        return -1;
    }
    int r = real(from, to);
    if (c == 'K') _exit(137);
    return r;
}

int renameat(int ofd, const char *from, int nfd, const char *to) {
    static int (*real)(int, const char *, int, const char *);
    if (!real) real = dlsym(RTLD_NEXT, "renameat");
    sched_setup();
    if (!under_dir(from) && !under_dir(to)) return real(ofd, from, nfd, to);
    char both[880];
    snprintf(both, sizeof both, "%s->%s", from, to);
    char c = ask("rename", both, 0);
    int e = verdict_errno(c);
    if (e) {
        errno = e;
        return -1;
    }
    int r = real(ofd, from, nfd, to);
    if (c == 'K') _exit(137);
    return r;
}

int unlink(const char *path) {
    static int (*real)(const char *);
    if (!real) real = dlsym(RTLD_NEXT, "unlink");
    sched_setup();
    if (!under_dir(path)) return real(path);
    char c = ask("unlink", path, 0);
    int e = verdict_errno(c);
    if (e) {
        errno = e;
        return -1;
    }
    int r = real(path);
    if (c == 'K') _exit(137);
    return r;
}

/* ------------------------------------------------------------------ directory enumeration seam
 * The order in which readdir() hands out the entries of a directory is a property of the file
 * system and of the directory's history, not of its content.  With VERIF_DIR_SEED set, every
 * directory stream is read to its end on the first call and its entries are handed out in an order
 * that is a pure function of the seed and the entry names. */
#include <dirent.h>

struct dstream {
    DIR *dir;
    struct dirent64 *ents;
    size_t n, next;
    int loaded;
};
#define MAXDIRS 64
static struct dstream dstreams[MAXDIRS];

static uint64_t name_key(const char *s, uint64_t seed) {
    uint64_t h = 0xcbf29ce484222325ull ^ seed;
    for (; *s; s++) h = (h ^ (unsigned char)*s) * 0x100000001b3ull;
    h ^= h >> 29;
    h *= 0xBF58476D1CE4E5B9ull;
    return h ^ (h >> 32);
}

static struct dstream *stream_of(DIR *d, int create) {
    for (int i = 0; i < MAXDIRS; i++)
        if (dstreams[i].dir == d) return &dstreams[i];
    if (!create) return NULL;
    for (int i = 0; i < MAXDIRS; i++)
        if (!dstreams[i].dir) {
            dstreams[i].dir = d;
            dstreams[i].ents = NULL;
            dstreams[i].n = dstreams[i].next = 0;
            dstreams[i].loaded = 0;
            return &dstreams[i];
        }
    return NULL;
}

struct dirent64 *readdir64(DIR *d) {
    static struct dirent64 *(*real)(DIR *);
    if (!real) real = dlsym(RTLD_NEXT, "readdir64");
    const char *seed_s = getenv("VERIF_DIR_SEED");
    if (!seed_s) return real(d);
    struct dstream *s = stream_of(d, 1);
    if (!s) return real(d);
    if (!s->loaded) {
        uint64_t seed = strtoull(seed_s, NULL, 10);
        struct dirent64 *e;
        size_t cap = 0;
        while ((e = real(d)) != NULL) {
            if (s->n == cap) {
                cap = cap ? cap * 2 : 16;
                s->ents = realloc(s->ents, cap * sizeof *s->ents);
            }
            s->ents[s->n++] = *e;
        }
        /* insertion sort by seeded key: directories here are small */
        for (size_t i = 1; i < s->n; i++) {
            struct dirent64 x = s->ents[i];
            uint64_t kx = name_key(x.d_name, seed);
            size_t j = i;
            while (j > 0 && name_key(s->ents[j - 1].d_name, seed) > kx) {
                s->ents[j] = s->ents[j - 1];
                j--;
            }
            s->ents[j] = x;
        }
        s->loaded = 1;
    }
    if (s->next < s->n) return &s->ents[s->next++];
    return NULL;
}

struct dirent *readdir(DIR *d) {
    /* on 64-bit Linux struct dirent and struct dirent64 have the same layout */
    return (struct dirent *)readdir64(d);
}

int closedir(DIR *d) {
    static int (*real)(DIR *);
    if (!real) real = dlsym(RTLD_NEXT, "closedir");
    struct dstream *s = stream_of(d, 0);
    if (s) {
        free(s->ents);
        s->dir = NULL;
        s->ents = NULL;
    }
    return real(d);
}
