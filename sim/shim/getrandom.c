/* LD_PRELOAD entropy shim for the real tx3c binary (C18/L2).
 * std's RandomState takes its SipHash keys from getrandom(2) through a weak
 * symbol that std documents as an interposition point.  The bytes handed out
 * here are a pure function of VERIF_HASH_SEED and the call counter. */
#include <stddef.h>
#include <stdint.h>
#include <stdlib.h>
#include <sys/types.h>

static uint64_t state;
static int init;

static uint64_t splitmix(void) {
    uint64_t z = (state += 0x9E3779B97F4A7C15ull);
    z = (z ^ (z >> 30)) * 0xBF58476D1CE4E5B9ull;
    z = (z ^ (z >> 27)) * 0x94D049BB133111EBull;
    return z ^ (z >> 31);
}

ssize_t getrandom(void *buf, size_t len, unsigned int flags) {
    (void)flags;
    if (!init) {
        const char *s = getenv("VERIF_HASH_SEED");
        state = s ? strtoull(s, NULL, 10) : 0;
        state ^= 0x5851F42D4C957F2Dull;
        splitmix();
        init = 1;
    }
    unsigned char *p = buf;
    size_t i = 0;
    while (i < len) {
        uint64_t v = splitmix();
        for (int k = 0; k < 8 && i < len; k++, i++) p[i] = (unsigned char)(v >> (8 * k));
    }
    return (ssize_t)len;
}
